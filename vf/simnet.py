"""SimNet: a deterministic in-harness network / scheduler for pyDCOP computations (DESIGN 2.3).

Computations only need `message_sender(src, dst, msg, prio, on_error)` and
`periodic_action_handler` -- what Agent.add_computation injects.  SimNet injects its own:

* one FIFO queue per ordered pair (src, dst); nothing is delivered synchronously;
* messages re-posted by a computation to itself with priority 19 (what
  MessagePassingComputation.start()/pause(False) do with the messages they buffered) go to a
  per-destination priority lane that is drained before any ordinary message to that destination,
  exactly like the agent's PriorityQueue does;
* at every step the enabled actions are: start(c) for each not-started computation, deliver(ch) for
  each non-empty channel whose destination has an empty priority lane, lane(dst) otherwise, and
  (while the schedule list lasts) tick(i) for registered periodic actions;
* `schedule` is a list of ints: step i takes enabled[schedule[i] % len(enabled)], where enabled is
  sorted canonically (starts by name, then deliveries oldest message first, then ticks).  When the
  list is exhausted the canonical choice (index 0) is taken until quiescence or the step bound.
"""
import json
from collections import Counter, deque


SLOW_BASE = 10000


class SimNet:
    def __init__(self, schedule=(), wire=False, max_steps=20000, tick_budget=0):
        # leading entries >= SLOW_BASE declare "slow" computations (index into the sorted names, mod n): the
        # scheduler serves them last, which produces the "one neighbour much slower than the others" executions
        self.schedule = list(schedule)
        self._slow_idx = []
        while self.schedule and self.schedule[0] >= SLOW_BASE:
            self._slow_idx.append(self.schedule.pop(0) - SLOW_BASE)
        self.wire = wire
        self.max_steps = max_steps
        self.tick_budget = tick_budget      # ticks fired when nothing else is enabled
        self.comps = {}
        self.channels = {}                  # (src, dst) -> deque[(seq, msg)]
        self.lane = {}                      # dst -> deque[(seq, src, msg)]
        self.started = []
        self.finished = Counter()
        self.finished_step = {}
        self.errors = []                    # (step, action, computation, exception repr, frame)
        self.sent = []                      # (seq, step, src, dst, type)
        self.delivered = []                 # (step, src, dst, seq, msg)
        self.periodic = []                  # [period, callback, active]
        self.seq = 0
        self.step = 0
        self.pos = 0
        self.bound_hit = False
        self.undeliverable = []
        self.on_finished = None             # optional callback(name)
        self.after_step = None              # optional callback(simnet)
        self.wire_failures = []
        self.slow = set()                   # computations served last: canonical order puts them at the end
        self.step_kind = None               # kind of the action being run (start/deliver/lane/tick)
        self.halt = False                   # an after_step callback may set it to end the run
        self.trace = None                   # set to [] to keep (seq, step, src, dst, msg, sender cycle)

    # ----------------------------------------------------------------- wiring
    def add(self, comp, name=None):
        name = name or comp.name
        self.comps[name] = comp
        comp.message_sender = self.post
        comp.periodic_action_handler = self
        net = self

        def _fin(*a, **k):
            net.finished[name] += 1
            net.finished_step.setdefault(name, net.step)
            if net.on_finished:
                net.on_finished(name)

        orig = comp.finished

        def wrapped(*a, **k):
            orig(*a, **k)
            _fin()

        comp.finished = wrapped
        return comp

    # message_sender protocol
    def post(self, src, dst, msg, prio=None, on_error=None):
        self.seq += 1
        if prio == 19 and dst in self.comps and self._inside == dst:
            # a computation re-injecting a buffered message to itself (start() / pause(False) use priority 19;
            # anything else posted from inside a handler - e.g. a discovery message of another computation of the
            # same agent - queues up behind what has already arrived, like every other message)
            self.lane.setdefault(dst, deque()).append((self.seq, src, msg))
            return
        if dst not in self.comps:
            self.undeliverable.append((self.step, src, dst, getattr(msg, "type", None)))
            return
        if self.wire:
            msg = self._through_wire(src, dst, msg)
        self.sent.append((self.seq, self.step, src, dst, getattr(msg, "type", None)))
        if self.trace is not None:
            self.trace.append((self.seq, self.step, src, dst, msg,
                               getattr(self.comps.get(src), "cycle_count", None)))
        self.channels.setdefault((src, dst), deque()).append((self.seq, msg))

    _inside = None

    def _through_wire(self, src, dst, msg):
        from pydcop.utils.simple_repr import simple_repr, from_repr
        try:
            return from_repr(json.loads(json.dumps(simple_repr(msg))))
        except Exception as e:  # recorded, original object delivered
            self.wire_failures.append((self.step, src, dst, getattr(msg, "type", None), repr(e)[:200]))
            return msg

    # periodic_action_handler protocol
    def set_periodic_action(self, period, cb):
        self.periodic.append([period, cb, True])
        return cb

    def remove_periodic_action(self, handle):
        for p in self.periodic:
            if p[1] is handle:
                p[2] = False

    # ----------------------------------------------------------------- scheduling
    def enabled(self, with_ticks):
        if self._slow_idx and self.comps:
            order = sorted(self.comps)
            self.slow = self.slow | {order[i % len(order)] for i in self._slow_idx}
            self._slow_idx = []
        slow = self.slow
        acts = [("start", n) for n in sorted(self.comps, key=lambda n: (n in slow, n)) if n not in self.started]
        dels = []
        for dst, q in self.lane.items():
            if q:
                dels.append(((dst in slow, q[0][0]), ("lane", dst)))
        for (src, dst), q in self.channels.items():
            if q and not self.lane.get(dst):
                dels.append(((dst in slow, q[0][0]), ("deliver", src, dst)))
        dels.sort(key=lambda x: x[0])
        acts += [d for _, d in dels]
        if with_ticks:
            acts += [("tick", i) for i, p in enumerate(self.periodic) if p[2]]
        return acts

    def _run_action(self, act):
        kind = act[0]
        self.step_kind = kind
        try:
            if kind == "start":
                name = act[1]
                self.started.append(name)
                self._inside = name
                self.comps[name].start()
            elif kind == "deliver":
                _, src, dst = act
                seq, msg = self.channels[(src, dst)].popleft()
                self.delivered.append((self.step, src, dst, seq, msg))
                self._inside = dst
                self.comps[dst].on_message(src, msg, float(self.step))
            elif kind == "lane":
                dst = act[1]
                seq, src, msg = self.lane[dst].popleft()
                self.delivered.append((self.step, src, dst, seq, msg))
                self._inside = dst
                self.comps[dst].on_message(src, msg, float(self.step))
            elif kind == "tick":
                self._inside = None
                self.periodic[act[1]][1]()
        except Exception as e:  # exception raised by the code under test
            import traceback
            frame = "?"
            for fs in traceback.extract_tb(e.__traceback__):
                fn = fs.filename.replace("\\", "/")
                if "/pydcop/" in fn:
                    frame = "%s:%s" % (fn.split("/pydcop/", 1)[1], fs.name)
            self.errors.append((self.step, act, type(e).__name__, str(e)[:300], frame))
        finally:
            self._inside = None

    def run(self, stop_on_error=True):
        """Run until quiescence, step bound, or (optionally) the first handler error."""
        ticks_left = self.tick_budget
        while self.step < self.max_steps:
            in_list = self.pos < len(self.schedule)
            acts = self.enabled(with_ticks=in_list)
            if not acts:
                if ticks_left > 0 and any(p[2] for p in self.periodic):
                    acts = [("tick", i) for i, p in enumerate(self.periodic) if p[2]]
                    ticks_left -= 1
                    act = acts[(self.tick_budget - ticks_left) % len(acts)]
                else:
                    return
            elif in_list:
                act = acts[self.schedule[self.pos] % len(acts)]
                self.pos += 1
            else:
                act = acts[0]
            self.step += 1
            self._run_action(act)
            if self.after_step:
                self.after_step(self, act)
            if self.halt or (self.errors and stop_on_error):
                return
        self.bound_hit = True

    # ----------------------------------------------------------------- observation
    def pending(self):
        return sum(len(q) for q in self.channels.values()) + sum(len(q) for q in self.lane.values())

    def schedule_label(self):
        n = len(self.schedule)
        return "sched:" + ("canonical" if not any(self.schedule) else "short" if n <= 6 else "long") + (
            "+slow" if self.slow else "")


def build_computations(dcop, graph_module, algo, params=None, mode=None):
    """Build all computations of `dcop` for `algo` on its graph model.  -> (graph, {name: computation})"""
    from importlib import import_module
    from pydcop.algorithms import AlgorithmDef, ComputationDef, load_algorithm_module
    gm = import_module("pydcop.computations_graph." + graph_module)
    graph = gm.build_computation_graph(dcop)
    am = load_algorithm_module(algo)
    algo_def = AlgorithmDef.build_with_default_param(algo, params or {}, mode=mode or dcop.objective)
    comps = {}
    for node in graph.nodes:
        comps[node.name] = am.build_computation(ComputationDef(node, algo_def))
    return graph, comps
