"""Shared SimNet runner for the local-search properties (C03, C04, C07, C06b, C10)."""
import random

from . import build, oracles, simnet
from .run import under_test

GRAPH_OF = {"mgm": "constraints_hypergraph", "mgm2": "constraints_hypergraph", "dsa": "constraints_hypergraph",
            "adsa": "constraints_hypergraph", "dsatuto": "constraints_hypergraph",
            "dba": "constraints_hypergraph", "gdba": "constraints_hypergraph", "mixeddsa": "constraints_hypergraph",
            "dpop": "pseudotree", "syncbb": "ordered_graph", "ncbb": "pseudotree",
            "maxsum": "factor_graph", "amaxsum": "factor_graph"}


class Run:
    """Result of one SimNet execution of an algorithm on a DCOP description."""

    def __init__(self):
        self.net = None
        self.comps = {}
        self.cycles = {}      # computation -> list of (cycle_count, value at entry, step)
        self.selections = {}  # computation -> list of (step, value, cost)
        self.graph = None


def run_algo(desc, algo, params, schedule, seed, max_steps=20000, tick_budget=0, wire=False, mode=None,
             stop_on_error=True, before_run=None, slow=()):
    random.seed(seed)
    try:
        import numpy
        numpy.random.seed(seed % (2**32))
    except ImportError:
        pass
    r = Run()
    with under_test():
        dcop, variables, constraints = build.build_dcop(desc)
        r.graph, r.comps = simnet.build_computations(dcop, GRAPH_OF[algo], algo, params, mode=mode)
    net = r.net = simnet.SimNet(schedule, wire=wire, max_steps=max_steps, tick_budget=tick_budget)
    if slow and r.comps:  # computations served last by the scheduler ("one neighbour much slower than the others")
        order = sorted(r.comps)
        net.slow = {order[i % len(order)] for i in slow}
    for name, c in r.comps.items():
        net.add(c)
        r.cycles[name] = []
        r.selections[name] = []
        if hasattr(c, "_on_new_cycle"):
            # documented monkey-patch point (DcopComputation._on_new_cycle)
            def on_cycle(count, _c=c, _n=name):
                r.cycles[_n].append((count, getattr(_c, "current_value", None), net.step))
            c._on_new_cycle = on_cycle
        if hasattr(c, "_on_value_selection"):
            def on_sel(val, cost, cycle, _n=name):
                r.selections[_n].append((net.step, val, cost))
            c._on_value_selection = on_sel
    if before_run:
        before_run(r)
    net.run(stop_on_error=stop_on_error)
    return r


def snapshots(desc, run):
    """Logical per-cycle snapshots A_c: for each cycle count c reached by *every* cycling computation, the value
    each computation held when it entered cycle c.  Computations that never cycle (no neighbour) contribute their
    final value.  -> list of (c, assignment)"""
    names = [v["name"] for v in desc["variables"]]
    cycling = [n for n in names if run.cycles.get(n)]
    static = {n: run.comps[n].current_value for n in names if n not in cycling}
    if not cycling:
        return []
    per = {n: {c: v for c, v, _ in run.cycles[n]} for n in cycling}
    common = set.intersection(*[set(d) for d in per.values()])
    out = []
    for c in sorted(common):
        a = dict(static)
        a.update({n: per[n][c] for n in cycling})
        out.append((c, a))
    return out
