"""Build pyDCOP objects from JSON case descriptions.  pyDCOP is imported lazily, inside the
functions, so that an import failure of the code under test surfaces inside run_case."""
import functools

from . import oracles


def np_table(c, dtype=None):
    import numpy as np

    def conv(t):
        if isinstance(t, list):
            return [conv(x) for x in t]
        return oracles.num(t)

    arr = np.array(conv(c["table"])) if dtype is None else np.array(conv(c["table"]), dtype=dtype)
    if c.get("layout") == "F":
        # same values, column-major memory (what a transposed view or np.asfortranarray hands over)
        arr = np.asfortranarray(arr)
    return arr


def build_domains(desc):
    from pydcop.dcop.objects import Domain
    out = {}
    for name, vals in desc["domains"].items():
        typ = desc.get("domain_types", {}).get(name, "d")
        out[name] = Domain(name, typ, list(vals))
    return out


def build_variable(desc, v, domains):
    from pydcop.dcop.objects import Variable, VariableWithCostDict, VariableWithCostFunc
    from pydcop.utils.expressionfunction import ExpressionFunction
    dom = domains[v["domain"]]
    cost = v.get("cost")
    init = v.get("initial")
    if not cost:
        return Variable(v["name"], dom, init)
    if cost["kind"] == "dict":
        items = [(val, oracles.num(c)) for val, c in zip(desc["domains"][v["domain"]], cost["costs"])]
        # the cost dict is the caller's: its keys may come in any order (key_order = permutation seed) and values
        # costing nothing may be left out (drop_zero; a missing value costs 0) - same cost function either way
        seed, ordered = cost.get("key_order", 0), []
        while items:
            seed, i = divmod(seed, len(items))
            ordered.append(items.pop(i))
        if cost.get("drop_zero"):
            ordered = [(val, c) for val, c in ordered if c != 0]
        return VariableWithCostDict(v["name"], dom, dict(ordered), init)
    if cost["kind"] == "expr":
        return VariableWithCostFunc(v["name"], dom, ExpressionFunction(cost["expr"]), init)
    raise ValueError(cost["kind"])


def build_constraint(desc, c, variables):
    """variables: name -> Variable.  The variable list is passed in the order of c['scope']."""
    from pydcop.dcop.relations import NAryMatrixRelation, constraint_from_str
    scope = [variables[n] for n in c["scope"]]
    if c["kind"] == "matrix":
        # an optional fixed-width storage type ("int8", "int32", ...): the class accepts any np.array
        return NAryMatrixRelation(scope, np_table(c, c.get("dtype")), name=c["name"])
    if c["kind"] == "expr":
        return constraint_from_str(c["name"], c["expr"], list(variables.values()))
    if c["kind"] == "external":
        # expression calling a helper defined in a python file (constraint_from_external_definition), optionally
        # sliced on some of its variables afterwards (c["fixed"]): what a constraint on a sensor value looks like
        import os
        from pydcop.dcop.relations import constraint_from_external_definition
        path = os.path.join(os.getcwd(), "ext_%d_%s.py" % (os.getpid(), c["name"]))
        with open(path, "w", encoding="utf-8") as f:
            f.write("def helper(x):\n    return %d * x + %d\n" % tuple(c["helper"]))
        r = constraint_from_external_definition(c["name"], path, "source.helper(%s)" % c["expr"],
                                                list(variables.values()))
        return r.slice(dict(c["fixed"])) if c.get("fixed") else r
    raise ValueError(c["kind"])


def build_dcop(desc, name="gen"):
    """-> (DCOP, variables dict, constraints dict)."""
    from pydcop.dcop.dcop import DCOP
    domains = build_domains(desc)
    variables = {v["name"]: build_variable(desc, v, domains) for v in desc["variables"]}
    dcop = DCOP(name, desc["objective"])
    for d in domains.values():
        dcop.domains[d.name] = d
    for v in variables.values():
        dcop.add_variable(v)
    constraints = {}
    for c in desc["constraints"]:
        r = build_constraint(desc, c, variables)
        constraints[c["name"]] = r
        dcop.add_constraint(r)
    if desc.get("agents"):
        dcop.add_agents(build_agents(desc["agents"]))
    return dcop, variables, constraints


def build_agents(adescs):
    from pydcop.dcop.objects import AgentDef
    out = []
    for a in adescs:
        kw = dict(a.get("extra", {}))
        out.append(AgentDef(a["name"],
                            default_hosting_cost=a.get("default_hosting_cost", 0),
                            hosting_costs=dict(a.get("hosting_costs", {})),
                            default_route=a.get("default_route", 1),
                            routes=dict(a.get("routes", {})), **kw))
    return out
