"""C13  Solution cost accounting matches the DCOP definition."""
from hypothesis import strategies as st

from .. import build, gen, oracles
from ..run import Outcome, UnderTestError, under_test

PROPERTY = "C13"
LEVEL = "exploration"
TECHNIQUE = "property-based testing (Hypothesis): generated DCOPs/assignments vs independent hard/soft accounting"
LEVEL_TEXT = ("Generated DCOPs (matrix and expression constraints, cost-dict and cost-function variables, external "
              "variables with values, infinity in {10000, 1e9, inf, 30}) with hard terms planted in constraints and in "
              "variable costs; complete assignments and strict sub-assignments. Oracle: hard = number of terms equal "
              "to infinity, soft = sum of the others, computed from the case description without pyDCOP; incomplete "
              "assignments must raise ValueError; assignment_cost is compared with the plain sum (with and without "
              "variable costs). Sampling of the input space, not a proof.")
LEVEL_NOTE = ("Trusted: reference arithmetic in vf/oracles.py. 'Incomplete' means a strict subset of the variables; "
              "DCOPs are assembled the way yamldcop.load_dcop assembles them (externals in external_variables only).")
RULE = ("case = DCOP description + externals + infinity + assignment (complete or strict subset); non-trivial = "
        "complete assignment with >=1 hard and >=1 non-zero soft term, or an incomplete assignment of a DCOP with "
        ">=2 variables; distinct by sha1(case)")
ASSUMPTIONS = ["finite costs are ints or dyadic floats (exact sums)"]
BUDGET = {"quick": {"workers": 8, "examples": 900, "seconds": 40},
          "thorough": {"workers": 16, "examples": 10000, "seconds": 450}}

# ... and a finite marker small enough for ordinary soft terms to exceed it: only terms EQUAL to the marker are hard
INFS = [10000, 1000000000.0, "inf", 30]


def _plant(draw, table, inf):
    if isinstance(table, list):
        return [_plant(draw, t, inf) for t in table]
    return inf if draw(st.sampled_from([0, 0, 0, 0, 1])) else table


@st.composite
def cases(draw):
    desc = draw(gen.dcops(min_vars=1, max_vars=5, max_constraints=5, var_costs=True, costs=gen.mixed_costs))
    inf = draw(st.sampled_from(INFS))
    # external variables
    names = [v["name"] for v in desc["variables"]]
    ext = []
    for nm in draw(st.lists(st.sampled_from([n for n in gen.NAME_POOL if n not in names] or ["zz"]),
                            max_size=2, unique=True)):
        d = draw(st.sampled_from(sorted(desc["domains"])))
        ext.append({"name": nm, "domain": d, "value": draw(st.sampled_from(desc["domains"][d]))})
    desc["externals"] = ext
    # some constraints get an external variable appended to their scope (matrix only)
    for c in desc["constraints"]:
        if c["kind"] == "matrix":
            if ext and draw(st.integers(0, 2)) == 0 and len(c["scope"]) < 3:
                e = draw(st.sampled_from(ext))
                k = len(desc["domains"][e["domain"]])
                c["scope"] = c["scope"] + [e["name"]]

                def widen(t):
                    if isinstance(t, list):
                        return [widen(x) for x in t]
                    return [t + i for i in range(k)]

                c["table"] = widen(c["table"])
            c["table"] = _plant(draw, c["table"], inf)
        elif inf != "inf" and len(c["scope"]) >= 1 and draw(st.booleans()):
            c["expr"] = "(%r if %s == %r else %s)" % (
                inf, c["scope"][0], draw(st.sampled_from(oracles.domain_of(desc, c["scope"][0]))), c["expr"])
    for v in desc["variables"]:
        if v["cost"] and v["cost"]["kind"] == "dict":
            v["cost"]["costs"] = _plant(draw, v["cost"]["costs"], inf)
    assignment = {v["name"]: draw(st.sampled_from(desc["domains"][v["domain"]])) for v in desc["variables"]}
    drop = []
    if len(names) >= 1 and draw(st.sampled_from([0, 0, 0, 1])):
        drop = draw(st.lists(st.sampled_from(names), min_size=1, max_size=len(names), unique=True))
    return {"dcop": desc, "infinity": inf, "assignment": assignment, "drop": drop,
            # the DCOP is built in two steps, with a cost query in between (one object, two states): nothing may be
            # remembered from the first query
            "grow": draw(st.booleans()),
            # the constraints are handed to assignment_cost as a list, a tuple, a dict view or a one-shot iterator
            "iterable": draw(st.sampled_from(["list", "tuple", "values", "iter", "generator"]))}


def case_strategy(tier):
    return cases()


def build_dcop_with_externals(desc, grow=False):
    from pydcop.dcop.dcop import DCOP
    from pydcop.dcop.objects import ExternalVariable
    domains = build.build_domains(desc)
    variables = {v["name"]: build.build_variable(desc, v, domains) for v in desc["variables"]}
    externals = {e["name"]: ExternalVariable(e["name"], domains[e["domain"]], e["value"]) for e in desc["externals"]}
    allv = dict(variables)
    allv.update(externals)
    constraints = {c["name"]: build.build_constraint(desc, c, allv) for c in desc["constraints"]}
    if grow and not externals and len(constraints) >= 1:
        # incremental construction: all constraints but the last, a cost query, then the last constraint and the
        # variables no constraint mentions
        dcop = DCOP("c13", desc["objective"])
        cs = list(constraints.values())
        for c in cs[:-1]:
            dcop.add_constraint(c)
        try:
            dcop.solution_cost({n: v.domain.values[0] for n, v in dcop.variables.items()}, 10000)
        except ValueError:
            pass
        dcop.add_constraint(cs[-1])
        for n, v in variables.items():
            if n not in dcop.variables:
                dcop.add_variable(v)
        return dcop, variables, constraints
    dcop = DCOP("c13", desc["objective"], domains=domains, variables=dict(variables), constraints=constraints)
    dcop.external_variables = externals
    return dcop, variables, constraints


def run_case(case):
    desc, inf = case["dcop"], oracles.num(case["infinity"])
    full = dict(case["assignment"])
    given = {k: v for k, v in full.items() if k not in case["drop"]}
    extvals = {e["name"]: e["value"] for e in desc["externals"]}
    labels = ["inf:%s" % case["infinity"], "complete" if not case["drop"] else "incomplete"]
    if desc["externals"]:
        labels.append("externals")
    try:
        with under_test():
            dcop, variables, constraints = build_dcop_with_externals(desc, case.get("grow", False))
        if case["drop"]:
            nontrivial = len(desc["variables"]) >= 2
            try:
                with under_test():
                    res = dcop.solution_cost(dict(given), inf)
            except UnderTestError as e:
                if e.exc_type == "ValueError":
                    return Outcome(True, "", nontrivial, labels)
                return Outcome(False, "incomplete assignment %r: raised %s instead of ValueError" % (sorted(given), e),
                               nontrivial, labels, info={"exc": e.exc_type})
            return Outcome(False, "incomplete assignment %r accepted, returned %r" % (sorted(given), res),
                           nontrivial, labels)
        # ---- complete assignment
        env = dict(full, **extvals)
        terms = [oracles.constraint_value(desc, c, env) for c in desc["constraints"]]
        terms += [oracles.var_cost(desc, v, full[v["name"]]) for v in desc["variables"]]
        hard = sum(1 for t in terms if t == inf)
        soft = sum(t for t in terms if t != inf)
        nontrivial = hard >= 1 and soft != 0
        if hard:
            labels.append("hard")
        with under_test():
            got = dcop.solution_cost(dict(full), inf)
        try:
            gh, gs = got
        except Exception:
            return Outcome(False, "solution_cost returned %r" % (got,), nontrivial, labels)
        gh, gs = (x.item() if hasattr(x, "item") else x for x in (gh, gs))
        if gh != hard or not oracles.close(gs, soft, 1e-12):
            return Outcome(False, "solution_cost=(%r, %r) expected (%r, %r) [infinity=%r, assignment=%r]" % (
                gh, gs, hard, soft, inf, full), nontrivial, labels)
        # ---- assignment_cost
        from pydcop.dcop.relations import assignment_cost
        csum = sum(oracles.constraint_value(desc, c, env) for c in desc["constraints"])
        scoped = []
        for c in desc["constraints"]:
            for n in c["scope"]:
                if n not in scoped and n in full:
                    scoped.append(n)
        vsum = sum(oracles.var_cost(desc, oracles.var_desc(desc, n), full[n]) for n in scoped)
        form = case.get("iterable", "list")

        def given_as():
            cs = list(constraints.values())
            return {"list": cs, "tuple": tuple(cs), "values": constraints.values(), "iter": iter(cs),
                    "generator": (c for c in cs)}[form]
        labels.append("constraints-as:" + form)
        if case.get("grow"):
            labels.append("grown")
        with under_test():
            a0 = assignment_cost(dict(env), given_as())
            a1 = assignment_cost(dict(env), given_as(), consider_variable_cost=True)
            # missing values may be given as keyword arguments
            a2 = assignment_cost(dict(full), list(constraints.values()), **extvals) if extvals else a0
        a0, a1, a2 = (x.item() if hasattr(x, "item") else x for x in (a0, a1, a2))
        if not oracles.close(a0, csum, 1e-12) or not oracles.close(a2, csum, 1e-12):
            return Outcome(False, "assignment_cost=%r (kwargs form %r) expected %r" % (a0, a2, csum), nontrivial, labels)
        if not oracles.close(a1, csum + vsum, 1e-12):
            return Outcome(False, "assignment_cost(consider_variable_cost)=%r expected %r" % (a1, csum + vsum),
                           nontrivial, labels)
    except UnderTestError as e:
        return Outcome(False, "raised %s at %s" % (e, e.frame), True, labels, info={"exc": e.exc_type})
    return Outcome(True, "", nontrivial, labels)
