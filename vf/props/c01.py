"""C01  DPOP returns an optimal assignment on every DCOP and schedule."""
import random

from hypothesis import strategies as st

from .. import build, gen, oracles, simnet
from ..run import Outcome, UnderTestError, under_test

PROPERTY = "C01"
LEVEL = "exploration"
TECHNIQUE = ("property-based testing (Hypothesis): generated DCOPs x generated FIFO delivery/start schedules on a "
             "deterministic in-harness network, oracle = brute-force optimum")
LEVEL_TEXT = ("DPOP computations built by the real pseudo-tree builder and dpop.build_computation are driven by "
              "SimNet, whose every start/delivery choice is a generated value (per-channel FIFO is the only ordering "
              "guarantee). DCOPs: 1-6 variables, domains of 1-3 values, 0-7 matrix/expression constraints of arity "
              "1-3, variable costs, min/max, any number of components. Oracle: every computation finished exactly "
              "once, values in domain, independent cost of the selected assignment == brute-force optimum, no handler "
              "exception, nothing undelivered, and the same optimum under a second generated schedule. Explores "
              "inputs x schedules by sampling; not exhaustive over interleavings.")
LEVEL_NOTE = ("Trusted: SimNet's model of per-channel FIFO delivery (vf/simnet.py), the brute-force oracle. Costs are "
              "ints in [-50,50] or dyadic floats so the optimum is exactly representable; costs beyond 2^31 are "
              "exercised by C06/C12 instead.")
RULE = ("case = DCOP description + two schedules + algorithm seed; non-trivial = >=1 constraint of arity>=2 and "
        "optimum != worst cost; distinct by sha1(case) (DCOP and schedules)")
ASSUMPTIONS = ["per-channel FIFO is the delivery guarantee of pyDCOP's transports"]
BUDGET = {"quick": {"workers": 8, "examples": 500, "seconds": 40},
          "thorough": {"workers": 16, "examples": 12500, "seconds": 600}}


@st.composite
def cases(draw):
    desc = draw(gen.dcops(min_vars=1, max_vars=6, max_dom=3, max_constraints=7, arities=(1, 2, 2, 3),
                          var_costs=True, costs=gen.mixed_costs))
    if draw(st.integers(0, 5)) == 0:
        # integer costs on an offset of 2^33 ("large penalty plus small preference"): sums stay exact in float64, but
        # candidates differ by a few units out of ~10^10
        def lift(t):
            return [lift(x) for x in t] if isinstance(t, list) else (t + 2 ** 33 if isinstance(t, int) else t)
        for c in desc["constraints"]:
            if c["kind"] == "matrix":
                c["table"] = lift(c["table"])
        for v in desc["variables"]:
            if v.get("cost") and v["cost"]["kind"] == "dict":
                v["cost"]["costs"] = lift(v["cost"]["costs"])
    return {"dcop": desc, "schedule": draw(gen.schedules(60)), "schedule2": draw(gen.schedules(60)),
            "algo_seed": draw(st.integers(0, 1000))}


@st.composite
def dense_cases(draw):
    """6-8 binary-valued variables and 8-14 (mostly binary) constraints: pseudo-trees with several back edges, nodes
    whose children have separators of different sizes, joins of relations over three and more shared variables."""
    desc = draw(gen.dcops(min_vars=6, max_vars=8, min_dom=2, max_dom=2, min_constraints=8, max_constraints=14,
                          arities=(2, 2, 2, 3), var_costs=True, costs=gen.mixed_costs, shape="connected"))
    return {"dcop": desc, "schedule": draw(gen.schedules(80)), "schedule2": draw(gen.schedules(80)),
            "algo_seed": draw(st.integers(0, 1000))}


def case_strategy(tier):
    return st.one_of(cases(), cases(), cases(), dense_cases())


def run_dpop(desc, schedule, seed, wire=False):
    """-> (assignment or None, why or None, simnet)"""
    random.seed(seed)
    with under_test():
        dcop, variables, constraints = build.build_dcop(desc)
        graph, comps = simnet.build_computations(dcop, "pseudotree", "dpop")
    net = simnet.SimNet(schedule, wire=wire, max_steps=5000)
    for c in comps.values():
        net.add(c)
    net.run()
    names = [v["name"] for v in desc["variables"]]
    if set(comps) != set(names):
        return None, "computations %r != variables %r" % (sorted(comps), sorted(names)), net
    if net.errors:
        return None, "handler raised: %r" % (net.errors[0],), net
    if net.undeliverable:
        return None, "message posted to unknown computation: %r" % (net.undeliverable[0],), net
    if net.bound_hit:
        return None, "step bound hit (no quiescence)", net
    if net.pending():
        return None, "%d messages left undelivered at quiescence" % net.pending(), net
    if net.wire_failures:
        return None, "message did not survive the wire format: %r" % (net.wire_failures[0],), net
    bad = {n: net.finished[n] for n in names if net.finished[n] != 1}
    if bad:
        return None, "finished() counts != 1: %r" % bad, net
    assignment = {}
    for n in names:
        val = comps[n].current_value
        if val not in oracles.domain_of(desc, n):
            return None, "value %r of %s not in domain" % (val, n), net
        assignment[n] = val
    return assignment, None, net


def run_case(case):
    desc = case["dcop"]
    labels = gen.dcop_labels(desc)
    best, args, worst = oracles.brute_force(desc)
    nontrivial = any(len(c["scope"]) >= 2 for c in desc["constraints"]) and best != worst
    try:
        costs = []
        for i, sched in enumerate((case["schedule"], case["schedule2"])):
            a, why, net = run_dpop(desc, sched, case["algo_seed"])
            if i == 0:
                labels.append(net.schedule_label())
            if why:
                return Outcome(False, "schedule %d: %s" % (i + 1, why), nontrivial, labels, info={"phase": "run"})
            cost = oracles.total_cost(desc, a)
            costs.append(cost)
            if not oracles.close(cost, best):
                return Outcome(False, "schedule %d: cost %r of %r != optimum %r (%s)" % (
                    i + 1, cost, a, best, desc["objective"]), nontrivial, labels, info={"phase": "optimum"})
    except UnderTestError as e:
        return Outcome(False, "raised %s at %s" % (e, e.frame), nontrivial, labels,
                       info={"exc": e.exc_type, "frame": e.frame})
    return Outcome(True, "", nontrivial, labels)
