"""C23  Distribution methods return valid mappings or declare impossibility."""
import contextlib
import io
import os

from hypothesis import strategies as st

from .. import build, gen
from ..run import Outcome, UnderTestError, under_test

PROPERTY = "C23"
LEVEL = "exploration"
TECHNIQUE = ("property-based testing (Hypothesis): generated computation graphs (all four graph models) x agent sets "
             "(capacities, hosting costs, routes) x hints x distribution method x entry point (API / distribute "
             "command); oracle = validity predicate over the returned mapping (exact cover, declared agents, "
             "must-host, capacity) or one of the two allowed failure signals")
LEVEL_TEXT = ("Generated DCOPs with 1-4 variables and 0-4 constraints give computation graphs of 1-8 computations "
              "under the constraints hypergraph, factor graph, pseudo-tree and ordered graph models; 1-4 agents with "
              "capacities from 0 / tight / ample, hosting costs (default 0 or positive, specific, including 0 = "
              "pinned), a common default route and symmetric specific routes; hints (must_host possibly over "
              "capacity or contradictory, host_with) or none; footprint/load functions from generated tables or "
              "from the algorithm module matching the graph model. Methods: oneagent, adhoc, heur_comhost, gh_cgdp, "
              "ilp_compref, oilp_cgdp on every model, ilp_fgdp on factor graphs; each through module.distribute() "
              "and through `pydcop distribute` run in-process on YAML files written by the repository's own dumper "
              "(stdout parsed). Oracle: the outcome is either ImpossibleDistributionException / TimeoutError "
              "(command: status FAIL / TIMEOUT), or a mapping hosting every computation exactly once on declared "
              "agents, honouring every must_host hint, and - for every method but oneagent - keeping the sum of "
              "footprints on each agent within its capacity (recomputed from the case tables). Any other exception "
              "or exit status is a violation. Completeness (finding a mapping whenever one exists) is not required. Capacities include 0, ample, "
              "tight, and footprint-relative ones (exactly what a generated packing needs, or what the computations pinned "
              "on the agent by a zero hosting cost need, plus a slack of 0-2). "
              "Sampling, not proof.")
LEVEL_NOTE = ("Trusted: the validity predicate in this file; CBC (bundled with PuLP) substituted for the absent glpsol "
              "binary from the harness (module.GLPK_CMD replaced; model, objective and constraints untouched). The "
              "SECP-specific methods (gh_secp_*, oilp_secp_*) and ilp_compref_fg need SECP-structured problems and "
              "are not driven.")
RULE = ("case = DCOP + graph model + agents + hints + method + entry point; non-trivial = >=2 agents, >=3 "
        "computations and (a capacity that cannot hold everything or a hint or a specific hosting cost); distinct "
        "by sha1(case)")
ASSUMPTIONS = ["glpsol is absent: the ILP methods are solved by CBC through a harness-side substitution of GLPK_CMD",
               "route tables are symmetric with one common default (what the YAML format can express)"]
BUDGET = {"quick": {"workers": 6, "examples": 400, "seconds": 45},
          "thorough": {"workers": 16, "examples": 2500, "seconds": 900}}

METHODS = ["oneagent", "adhoc", "heur_comhost", "gh_cgdp", "ilp_compref", "oilp_cgdp", "ilp_fgdp"]
CAPACITY_AWARE = {"adhoc", "heur_comhost", "gh_cgdp", "ilp_compref", "oilp_cgdp", "ilp_fgdp"}
ILP = {"ilp_compref", "oilp_cgdp", "ilp_fgdp"}
GRAPHS = ["constraints_hypergraph", "factor_graph", "pseudotree", "ordered_graph"]
ALGO_FOR_GRAPH = {"constraints_hypergraph": ["dsa", "mgm", "mgm2", "adsa", "dba", "gdba"],
                  "factor_graph": ["maxsum", "amaxsum"], "pseudotree": ["dpop"], "ordered_graph": ["syncbb"]}
AGENT_NAMES = ["a1", "a2", "a10", "b"]


@st.composite
def cases(draw):
    dcop = draw(gen.dcops(min_vars=1, max_vars=4, max_dom=2, max_constraints=4, arities=(1, 2, 3), kinds=("matrix",),
                          var_costs=False, objectives=("min",), costs=gen.nonneg_int_costs, str_domains=False))
    method = draw(st.sampled_from(METHODS))
    graph = "factor_graph" if method == "ilp_fgdp" else draw(st.sampled_from(GRAPHS))
    na = draw(st.integers(1, 4))
    common_default_route = draw(st.sampled_from([1, 1, 0, 2, 0.5]))
    agents = []
    # "pack" / "pinned": capacities derived at run time from the footprints (see _relative_capacities): a feasible
    # but tight packing, resp. exactly what the computations pinned on the agent (hosting cost 0) need
    cap_mode = draw(st.sampled_from(["ample", "tight", "mixed", "zero", "pack", "pack", "pinned"]))
    # ilp_fgdp treats hosting cost 0 as a pin: half of its cases are about pins that fill an agent (almost) exactly
    pin_story = method == "ilp_fgdp" and draw(st.booleans())
    if pin_story:
        cap_mode = "pinned"
    for i in range(na):
        a = {"name": AGENT_NAMES[i], "default_route": common_default_route, "routes": {}}
        a["capacity"] = {"ample": 1000, "zero": draw(st.sampled_from([0, 0, 1])),
                         "tight": draw(st.integers(1, 12)),
                         "mixed": draw(st.sampled_from([0, 3, 8, 1000])),
                         "pack": 0, "pinned": 0}[cap_mode]
        if cap_mode in ("pack", "pinned"):
            a["cap_rel"] = {"mode": cap_mode, "slack": draw(st.sampled_from([0, 0, 0, 1, 2]))}
        a["default_hosting_cost"] = draw(st.sampled_from([0, 0, 1, 5, 10]))
        # specific hosting costs: (computation index, cost); index is resolved modulo #computations at run time
        a["hosting"] = draw(st.lists(st.tuples(st.integers(0, 7), st.sampled_from([0, 0, 1, 3, 20])), max_size=3))
        if pin_story:
            a["default_hosting_cost"] = draw(st.sampled_from([1, 5, 10]))
            if i == 0 or draw(st.booleans()):
                a["hosting"] = [(draw(st.integers(0, 7)), 0)] + a["hosting"][:2]
        agents.append(a)
    for i in range(na):
        for j in range(i + 1, na):
            if draw(st.integers(0, 2)) == 0:
                r = draw(st.sampled_from([0, 1, 3, 0.5, 10]))
                agents[i]["routes"][agents[j]["name"]] = r
                agents[j]["routes"][agents[i]["name"]] = r
    hints = None
    if draw(st.integers(0, 2)) == 0:
        hints = {"must_host": draw(st.lists(st.tuples(st.integers(0, na - 1), st.integers(0, 7)), max_size=3)),
                 "host_with": draw(st.lists(st.tuples(st.integers(0, 7), st.integers(0, 7)), max_size=2))}
    return {
        "dcop": dcop, "graph": graph, "method": method, "agents": agents, "hints": hints,
        "entry": draw(st.sampled_from(["api", "api", "cli"])),
        "tables": draw(st.booleans()),
        "footprint": draw(st.lists(st.sampled_from([0, 1, 2, 3, 5, 8, 2.5]), min_size=8, max_size=8)),
        "load": draw(st.lists(st.sampled_from([0, 1, 2, 4, 10, 0.5]), min_size=8, max_size=8)),
        "algo_pick": draw(st.integers(0, 5)), "rng_seed": draw(st.integers(0, 10 ** 6)),
        "pack": draw(st.lists(st.integers(0, 3), min_size=8, max_size=8)),
        # a quarter of the cases distribute twice in the same process: the same problem first with these constraints
        # removed, then complete (same variable names, more links): a result must not depend on an earlier call
        "drop_first": draw(st.lists(st.integers(0, 3), max_size=2, unique=True)) if draw(st.integers(0, 3)) == 0 else [],
    }


@st.composite
def adhoc_hint_cases(draw):
    """adhoc on a factor graph where a computation is tied by host_with to a computation that a must_host hint
    has already placed, with capacities that are a tight packing (seeded change C23-m6 skipped the capacity
    filter on exactly that path): the conjunction is rare in cases()."""
    case = draw(cases())
    case["method"], case["graph"], case["entry"] = "adhoc", "factor_graph", "api"
    na = len(case["agents"])
    ci = draw(st.integers(0, 7))
    case["hints"] = {"must_host": [(draw(st.integers(0, na - 1)), ci)] +
                                  draw(st.lists(st.tuples(st.integers(0, na - 1), st.integers(0, 7)), max_size=1)),
                     "host_with": [(draw(st.integers(0, 7)), ci)] +
                                  draw(st.lists(st.tuples(st.integers(0, 7), st.integers(0, 7)), max_size=1))}
    for a in case["agents"]:
        a["capacity"] = 0
        a["cap_rel"] = {"mode": "pack", "slack": draw(st.sampled_from([0, 0, 1, 2, 4]))}
    return case


def case_strategy(tier):
    return st.one_of(cases(), cases(), cases(), cases(), cases(), cases(), cases(), adhoc_hint_cases())


_patched = set()


def _shim_glpk(module):
    """glpsol is not installed: substitute CBC (harness-side, see ASSUMPTIONS)."""
    if module.__name__ in _patched or not hasattr(module, "GLPK_CMD"):
        return
    import pulp

    def cbc(**kw):
        opts = kw.get("options") or []
        limit = None
        if "--tmlim" in opts:
            try:
                limit = max(1, int(float(opts[opts.index("--tmlim") + 1])))
            except (ValueError, IndexError):
                limit = None
        return pulp.PULP_CBC_CMD(msg=False, timeLimit=limit)

    module.GLPK_CMD = cbc
    _patched.add(module.__name__)


def _resolve(case, comp_names):
    """Turn index-based hosting costs / hints into names, deterministically."""
    n = len(comp_names)
    agents = []
    for a in case["agents"]:
        hc = {}
        for idx, cost in a["hosting"]:
            hc[comp_names[idx % n]] = cost
        agents.append({"name": a["name"], "default_route": a["default_route"], "routes": dict(a["routes"]),
                       "default_hosting_cost": a["default_hosting_cost"], "hosting_costs": hc,
                       "extra": {"capacity": a["capacity"]}})
    must, hostw = {}, {}
    if case["hints"]:
        for ai, ci in case["hints"]["must_host"]:
            lst = must.setdefault(case["agents"][ai]["name"], [])
            c = comp_names[ci % n]
            if c not in lst:
                lst.append(c)
        for c1, c2 in case["hints"]["host_with"]:
            if comp_names[c1 % n] != comp_names[c2 % n]:
                lst = hostw.setdefault(comp_names[c1 % n], [])
                if comp_names[c2 % n] not in lst:
                    lst.append(comp_names[c2 % n])
    return agents, must, hostw


def _relative_capacities(case, agent_descs, comp_names, footprint):
    """Capacities that depend on the footprints: "pack" = what the agent needs to host the computations a generated
    assignment (case["pack"]) gives it, plus a slack; "pinned" = what the computations with hosting cost 0 on the
    agent need (plus the slack), falling back to "pack" for an agent without pinned computation."""
    na = len(agent_descs)
    pack = case.get("pack") or [0] * 8
    for i, (a, ad) in enumerate(zip(case["agents"], agent_descs)):
        rel = a.get("cap_rel")
        if not rel:
            continue
        packed = sum(footprint[c] for j, c in enumerate(comp_names) if pack[j % 8] % na == i)
        pinned = [c for c, cost in ad["hosting_costs"].items() if cost == 0]
        need = sum(footprint[c] for c in pinned) if rel["mode"] == "pinned" and pinned else packed
        ad["extra"]["capacity"] = need + rel["slack"]


def check_mapping(mapping, comp_names, agent_descs, must, footprint, method):
    """Validity predicate -> None or a description of what is wrong."""
    names = [a["name"] for a in agent_descs]
    flat = [c for cs in mapping.values() for c in cs]
    unknown_agents = sorted(set(mapping) - set(names))
    if unknown_agents:
        return "mapping uses undeclared agents %r" % unknown_agents, "undeclared-agent"
    dup = sorted(c for c in set(flat) if flat.count(c) > 1)
    if dup:
        return "computations hosted more than once: %r" % dup, "duplicate"
    missing = sorted(set(comp_names) - set(flat))
    if missing:
        return "computations not hosted: %r" % missing, "missing"
    extra = sorted(set(flat) - set(comp_names))
    if extra:
        return "unknown computations hosted: %r" % extra, "unknown-computation"
    where = {c: a for a, cs in mapping.items() for c in cs}
    # capacity first: a mapping that is both over capacity and ignoring a hint is reported for its capacity
    # (ignored hints are listed findings for most methods and must not hide anything else)
    if method in CAPACITY_AWARE:
        for a in agent_descs:
            used = sum(footprint[c] for c in mapping.get(a["name"], []))
            if used > a["extra"]["capacity"] + 1e-9:
                return "agent %s hosts footprint %r with capacity %r (%r)" % (
                    a["name"], used, a["extra"]["capacity"], sorted(mapping.get(a["name"], []))), "capacity"
    for a, cs in must.items():
        for c in cs:
            if where[c] != a:
                return "must_host hint %s -> %s ignored: hosted on %s" % (c, a, where[c]), "must-host"
    return None, None


def run_case(case):
    drop = [i for i in case.get("drop_first", []) if i < len(case["dcop"]["constraints"])]
    if not drop:
        return _run_one(case)
    first = dict(case)
    first["dcop"] = dict(case["dcop"])
    first["dcop"]["constraints"] = [c for i, c in enumerate(case["dcop"]["constraints"]) if i not in drop]
    first["entry"] = "api"
    out1 = _run_one(first)
    if not out1.ok and not out1.discard:
        out1.why = "[first call of two] " + out1.why
        return out1
    out2 = _run_one(case)
    out2.labels.append("two-calls")
    if not out2.ok:
        out2.why = "[second call, after distributing the same problem with constraints %r removed] %s" % (drop, out2.why)
    return out2


def _run_one(case):
    import random
    method, graph = case["method"], case["graph"]
    labels = ["method:" + method, "graph:" + graph, "entry:" + case["entry"], "agents:%d" % len(case["agents"])]
    nontrivial = False
    try:
        with under_test():
            import importlib
            import numpy
            dcop, _, _ = build.build_dcop(case["dcop"])
            graph_module = importlib.import_module("pydcop.computations_graph." + graph)
            cg = graph_module.build_computation_graph(dcop)
            comp_names = sorted(n.name for n in cg.nodes)
        agent_descs, must, hostw = _resolve(case, comp_names)
        algo = ALGO_FOR_GRAPH[graph][case["algo_pick"] % len(ALGO_FOR_GRAPH[graph])]
        use_tables = case["tables"] and case["entry"] == "api"
        with under_test():
            from pydcop.algorithms import load_algorithm_module
            from pydcop.distribution.objects import DistributionHints, ImpossibleDistributionException
            dist_module = importlib.import_module("pydcop.distribution." + method)
            _shim_glpk(dist_module)
            algo_module = load_algorithm_module(algo)
        fp_table = {c: case["footprint"][i % 8] for i, c in enumerate(comp_names)}
        load_table = {c: case["load"][i % 8] for i, c in enumerate(comp_names)}
        if use_tables:
            def computation_memory(node):
                return fp_table[node.name]

            def communication_load(node, target):
                return load_table[node.name] + load_table[target]
            footprint = fp_table
            labels.append("costs:tables")
        else:
            computation_memory, communication_load = algo_module.computation_memory, algo_module.communication_load
            try:
                with under_test():
                    footprint = {n.name: computation_memory(n) for n in cg.nodes}
            except UnderTestError as e:
                if e.exc_type == "NotImplementedError":
                    # the algorithm does not define a footprint (dpop): nothing to distribute with
                    return Outcome(True, "", False, labels + ["no-footprint:" + algo], discard=True)
                raise
            labels.append("costs:" + algo)
        _relative_capacities(case, agent_descs, comp_names, footprint)
        if any(a.get("cap_rel") for a in case["agents"]):
            labels.append("capacity:" + case["agents"][0]["cap_rel"]["mode"])
        total = sum(footprint.values())
        has_hint = bool(must or hostw)
        if has_hint:
            labels.append("hints")
        specific = any(a["hosting_costs"] for a in agent_descs)
        nontrivial = len(agent_descs) >= 2 and len(comp_names) >= 3 and (
            has_hint or specific or any(a["extra"]["capacity"] < total for a in agent_descs))
        desc = "%s on %s %r, agents %r, must_host %r, host_with %r, footprints %r" % (
            method, graph, comp_names,
            [(a["name"], a["extra"]["capacity"], a["default_hosting_cost"], a["hosting_costs"]) for a in agent_descs],
            must, hostw, footprint)
        random.seed(case["rng_seed"])
        numpy.random.seed(case["rng_seed"] % (2 ** 32))
        if case["entry"] == "api":
            with under_test():
                agents = build.build_agents(agent_descs)
                hints = DistributionHints(must_host=must or None, host_with=hostw or None) if case["hints"] else None
            try:
                with under_test():
                    dist = dist_module.distribute(cg, agents, hints=hints, computation_memory=computation_memory,
                                                  communication_load=communication_load)
                    mapping = {a: list(cs) for a, cs in dist.mapping().items()}
            except UnderTestError as e:
                if e.exc_type in ("ImpossibleDistributionException", "TimeoutError"):
                    return Outcome(True, "", nontrivial, labels + ["outcome:impossible"])
                if e.exc_type == "PulpSolverError":
                    # the substituted solver (CBC reads MPS, glpsol would read LP) refused the model file: this says
                    # nothing about what the method does with its real solver -> inconclusive, counted
                    return Outcome(True, "", False, labels + ["inconclusive:solver-error"], discard=True)
                return Outcome(False, "%s.distribute raised %s at %s [%s]" % (method, e, e.frame, desc), nontrivial,
                               labels, info={"kind": "raised", "exc": e.exc_type, "frame": e.frame, "method": method})
        else:
            import yaml
            with under_test():
                from pydcop.commands import distribute as cmd
                from pydcop.dcop.yamldcop import dcop_yaml
                dcop.add_agents(build.build_agents(agent_descs))
                text = dcop_yaml(dcop)
            if case["hints"]:
                h = {}
                if must:
                    h["must_host"] = must
                if hostw:
                    h["host_with"] = hostw
                if h:
                    text += "\n" + yaml.dump({"distribution_hints": h})
            path = os.path.abspath("dist_case.yaml")
            with open(path, "w") as f:
                f.write(text)
            import argparse
            parser = argparse.ArgumentParser()
            parser.add_argument("--output", type=str)
            sub = parser.add_subparsers(dest="action")
            buf = io.StringIO()
            code = None
            try:
                with under_test(), contextlib.redirect_stdout(buf):
                    cmd.set_parser(sub)
                    # the command's --graph option does not list the ordered graph: it is implied by --algo
                    gopt = ["-g", graph] if graph != "ordered_graph" else []
                    args = parser.parse_args(["distribute"] + gopt + ["-d", method, "-a", algo, path])
                    try:
                        args.func(args)
                    except SystemExit as se:
                        code = se.code
            except UnderTestError as e:
                if e.exc_type == "PulpSolverError":
                    return Outcome(True, "", False, labels + ["inconclusive:solver-error"], discard=True)
                return Outcome(False, "`pydcop distribute -g %s -d %s -a %s` raised %s at %s [%s]" % (
                    graph, method, algo, e, e.frame, desc), nontrivial, labels,
                    info={"kind": "raised", "exc": e.exc_type, "frame": e.frame, "method": method})
            finally:
                if os.path.exists(path):
                    os.remove(path)
            out = buf.getvalue()
            try:
                res = yaml.safe_load(out)
            except Exception:
                res = None
            if code != 0 or not isinstance(res, dict) or "status" not in res:
                return Outcome(False, "`pydcop distribute -d %s` exited with %r and output %r [%s]" % (
                    method, code, out[-300:], desc), nontrivial, labels, info={"kind": "cli-exit", "method": method})
            if res["status"] in ("FAIL", "TIMEOUT"):
                return Outcome(True, "", nontrivial, labels + ["outcome:impossible"])
            if res["status"] != "SUCCESS" or not isinstance(res.get("distribution"), dict):
                return Outcome(False, "`pydcop distribute -d %s` printed status %r without a distribution [%s]" % (
                    method, res.get("status"), desc), nontrivial, labels, info={"kind": "cli-status", "method": method})
            mapping = {a: list(cs) for a, cs in res["distribution"].items()}
        why, kind = check_mapping(mapping, comp_names, agent_descs, must, footprint, method)
        if why:
            return Outcome(False, "%s returned an invalid mapping %r: %s [%s]" % (method, mapping, why, desc),
                           nontrivial, labels, info={"kind": kind, "method": method})
        return Outcome(True, "", nontrivial, labels + ["outcome:mapping"])
    except UnderTestError as e:
        return Outcome(False, "set-up raised %s at %s" % (e, e.frame), nontrivial, labels,
                       info={"kind": "setup", "exc": e.exc_type, "frame": e.frame, "method": case["method"]})
    finally:
        for f in os.listdir("."):
            if f.endswith((".lp", ".sol", ".mps", ".yaml")):
                try:
                    os.remove(f)
                except OSError:
                    pass


def classify(case, out):
    info = out.info or {}
    kind, method = info.get("kind"), info.get("method")
    if kind == "must-host" and method in ("oneagent", "heur_comhost", "gh_cgdp", "ilp_compref", "oilp_cgdp", "ilp_fgdp"):
        return "C23-%s-ignores-must-host" % method
    return None


def postcheck(cov, tier):
    need = ["method:" + m for m in METHODS] + ["graph:" + g for g in GRAPHS] + [
        "entry:api", "entry:cli", "outcome:mapping", "outcome:impossible", "hints", "costs:tables"]
    missing = [l for l in need if not cov["labels"].get(l)]
    return ("classes never generated: %s" % missing) if missing else None
