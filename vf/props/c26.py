"""C26  Repair DCOP constraints and candidate info encode the repair rules."""
import itertools

from hypothesis import strategies as st

from ..run import Outcome, UnderTestError, under_test

PROPERTY = "C26"
LEVEL = "exploration"
TECHNIQUE = ("property-based testing (Hypothesis): generated discovery states / computation graphs / departed subsets "
             "against a reference model of the repair rules; every generated repair constraint is compared with its "
             "defining formula on all 0/1 assignments of its scope (exhaustive inner enumeration up to 2^12)")
LEVEL_TEXT = ("Generated deployments: 2-5 agents, 1-6 computations each hosted on one agent with an arbitrary replica "
              "set (possibly empty, possibly only on departed agents), a computation graph with binary and ternary "
              "links, any non-empty departed subset (including all agents), footprints, remaining capacities, hosting "
              "and communication cost tables (ints and dyadic floats). The state is loaded into a real Discovery "
              "object and a real ComputationGraph. Oracle A (info): orphaned computations, overall candidate agents, "
              "and for every surviving agent the per-computation info (candidates, fixed neighbours -> surviving "
              "host, orphaned neighbours -> surviving replica holders) equal the sets computed from the case "
              "description, without duplicates. Oracle B (constraints): the four constraint builders are fed with "
              "that info exactly as the agent's repair set-up does and each constraint is evaluated, through "
              "keyword call and get_value_for_assignment, on ALL binary assignments of its scope (exhaustive when "
              "the scope has <= 12 variables, otherwise 1024 assignments spread by a fixed stride): hosted == 0 iff "
              "exactly one candidate selected, capacity == 0 iff selected footprints fit the remaining capacity, "
              "hosting == sum of selected hosting costs, communication == its defining sum; each value is read "
              "through keyword arguments, an assignment dict, reversed keyword order and (small scopes) after slicing a "
              "variable away first. A third of the cases query the same Discovery object a second time after re-hostings.")
LEVEL_NOTE = ("Trusted: the reference formulas in this file. Inner enumeration is exhaustive per generated instance "
              "(evidence counts the assignments evaluated); the outer space (deployments) is sampled.")
RULE = ("case = deployment + departed subset + cost tables; non-trivial = at least one orphaned computation with >=2 "
        "surviving candidates and an orphaned neighbour (so every constraint kind has a multi-variable scope); "
        "distinct by sha1(case)")
ASSUMPTIONS = ["discovery states are consistent: hosts and replica holders are registered agents; a replica is never "
               "held by the computation's own host"]
BUDGET = {"quick": {"workers": 4, "examples": 500, "seconds": 40},
          "thorough": {"workers": 16, "examples": 5000, "seconds": 500}}

AGENTS = ["a1", "a2", "a10", "b", "a_1"]
COMPS = ["c1", "c2", "c10", "v_1", "x", "f_12"]
NUM = st.one_of(st.integers(0, 20), st.sampled_from([0.5, 0.25, 1.5, 100, 7.75]))

_stats = {"assignments": 0, "constraints": 0}


@st.composite
def cases(draw):
    na = draw(st.integers(2, 5))
    nc = draw(st.integers(1, 6))
    comps = []
    for i in range(nc):
        host = draw(st.integers(0, na - 1))
        others = [a for a in range(na) if a != host]
        reps = draw(st.lists(st.sampled_from(others), min_size=draw(st.integers(0, len(others))), max_size=len(others),
                              unique=True)) if others else []
        comps.append({"host": host, "replicas": reps, "footprint": draw(NUM)})
    links = []
    if nc >= 2:
        for _ in range(draw(st.integers(0, 9))):
            k = draw(st.integers(2, min(3, nc)))
            links.append(sorted(draw(st.lists(st.integers(0, nc - 1), min_size=k, max_size=k, unique=True))))
    departed = draw(st.lists(st.integers(0, na - 1), min_size=1, max_size=na if draw(st.integers(0, 4)) == 0 else min(2, na),
                             unique=True))
    return {
        "n_agents": na, "comps": comps, "links": links, "departed": sorted(departed),
        "capacity": [draw(NUM) for _ in range(na)],
        "hosting": [[draw(NUM) for _ in range(nc)] for _ in range(na)],
        "comm_load": [[draw(NUM) for _ in range(nc)] for _ in range(nc)],
        "route": [[draw(NUM) for _ in range(na)] for _ in range(na)],
        "departed_order": draw(st.integers(0, 119)),
        # (computation, new host) moves applied to the same discovery object before a second query
        "rehost": draw(st.lists(st.tuples(st.integers(0, 5), st.integers(0, 4)), min_size=1, max_size=2))
        if draw(st.integers(0, 2)) == 0 else [],
    }


@st.composite
def rich_cases(draw):
    """Deployments built around the interesting situation: one or two departing agents that host several linked
    computations, each replicated on two or more survivors (every constraint kind gets a multi-variable scope)."""
    na = draw(st.integers(4, 5))
    departed = sorted(draw(st.lists(st.integers(0, na - 1), min_size=1, max_size=2, unique=True)))
    survivors = [a for a in range(na) if a not in departed]
    nc = draw(st.integers(3, 6))
    comps = []
    for i in range(nc):
        host = draw(st.sampled_from(departed)) if i < 2 or draw(st.booleans()) else draw(st.sampled_from(survivors))
        pool = [a for a in range(na) if a != host]
        reps = set(draw(st.lists(st.sampled_from(pool), max_size=len(pool), unique=True)))
        if host in departed:
            reps |= set(draw(st.lists(st.sampled_from(survivors), min_size=min(2, len(survivors)),
                                      max_size=len(survivors), unique=True)))
        comps.append({"host": host, "replicas": sorted(reps), "footprint": draw(NUM)})
    links = [[0, 1]]
    for _ in range(draw(st.integers(1, 6))):
        k = draw(st.integers(2, 3))
        links.append(sorted(draw(st.lists(st.integers(0, nc - 1), min_size=k, max_size=k, unique=True))))
    return {
        "n_agents": na, "comps": comps, "links": links, "departed": departed,
        "capacity": [draw(NUM) for _ in range(na)],
        "hosting": [[draw(NUM) for _ in range(nc)] for _ in range(na)],
        "comm_load": [[draw(NUM) for _ in range(nc)] for _ in range(nc)],
        "route": [[draw(NUM) for _ in range(na)] for _ in range(na)],
        "departed_order": draw(st.integers(0, 119)),
        # (computation, new host) moves applied to the same discovery object before a second query
        "rehost": draw(st.lists(st.tuples(st.integers(0, 5), st.integers(0, 4)), min_size=1, max_size=2))
        if draw(st.integers(0, 2)) == 0 else [],
    }


def case_strategy(tier):
    return st.one_of(cases(), rich_cases())


def _assignments(n):
    if n <= 12:
        return itertools.product((0, 1), repeat=n)
    total = 1 << n
    stride = (total // 1024) | 1
    return (tuple((((i * stride) % total) >> b) & 1 for b in range(n)) for i in range(1024))


def _values(rel, names, bits):
    """Value of the constraint through keyword arguments and through an assignment dict; the second one is taken
    in another key order and, for small scopes, after slicing the last variable away first (what MGM does): any
    disagreement comes back as a pair of different values."""
    asg = dict(zip(names, bits))
    v1 = rel(**asg)
    v2 = rel.get_value_for_assignment(dict(asg))
    if v1 == v2 and len(names) >= 2:
        v2 = rel(**dict(reversed(list(asg.items()))))
        if v1 == v2 and len(names) <= 5:
            rest = {n: b for n, b in asg.items() if n != names[-1]}
            v2 = rel.slice({names[-1]: asg[names[-1]]})(**rest)
    return v1, v2


def run_case(case):
    shared = {}
    out = _run(case, shared)
    moves = case.get("rehost") or []
    if out.ok and moves:
        # the same Discovery object, same departed agents, after some computations were re-hosted (a repair, a
        # redeployment): nothing may be remembered from the first query
        comps = [dict(c) for c in case["comps"]]
        for ci, ai in moves:
            comps[ci % len(comps)]["host"] = ai % case["n_agents"]
        if [c["host"] for c in comps] != [c["host"] for c in case["comps"]]:
            out2 = _run(dict(case, comps=comps), shared)
            out2.labels.append("requery-after-rehosting")
            out2.nontrivial = out.nontrivial or out2.nontrivial
            if not out2.ok:
                out2.why = "[second query on the same discovery object, after re-hosting to %r] %s" % (
                    [c["host"] for c in comps], out2.why)
            return out2
    return out


def _run(case, shared):
    na = case["n_agents"]
    agents = AGENTS[:na]
    comps = case["comps"]
    cnames = COMPS[:len(comps)]
    departed = [agents[i] for i in case["departed"]]
    # departed agents in a generated order (the API takes a list)
    perm, seed = [], case["departed_order"]
    pool = list(departed)
    while pool:
        seed, i = divmod(seed, len(pool))
        perm.append(pool.pop(i))
    departed_list = perm
    host = {cnames[i]: agents[c["host"]] for i, c in enumerate(comps)}
    replicas = {cnames[i]: set(agents[a] for a in c["replicas"]) for i, c in enumerate(comps)}
    footprint = {cnames[i]: c["footprint"] for i, c in enumerate(comps)}
    neigh = {c: set() for c in cnames}
    for l in case["links"]:
        for i in l:
            neigh[cnames[i]].update(cnames[j] for j in l if j != i)
    orphaned = set(c for c in cnames if host[c] in departed)
    survivors = [a for a in agents if a not in departed]
    cand = {c: replicas[c] - set(departed) for c in cnames}
    labels = ["agents:%d" % na, "departed:%d" % len(departed), "orphaned:%d" % min(len(orphaned), 3)]
    nontrivial = any(len(cand[o]) >= 2 and any(n in orphaned and cand[n] for n in neigh[o]) for o in orphaned)
    if not survivors:
        labels.append("all-departed")
    if any(not cand[o] for o in orphaned):
        labels.append("orphan-without-candidate")

    def hosting_cost(a, c):
        return case["hosting"][agents.index(a)][cnames.index(c)]

    def comm(a, c, n, agt):
        return case["comm_load"][cnames.index(c)][cnames.index(n)] * case["route"][agents.index(a)][agents.index(agt)]

    try:
        with under_test():
            from pydcop.computations_graph.objects import ComputationGraph, ComputationNode, Link
            from pydcop.dcop.objects import create_binary_variables
            from pydcop.infrastructure.discovery import Discovery
            from pydcop.reparation import (create_agent_capacity_constraint, create_agent_comp_comm_constraint,
                                           create_agent_hosting_constraint, create_computation_hosted_constraint)
            from pydcop.reparation.removal import (_removal_candidate_agents, _removal_candidate_agt_info,
                                                   _removal_orphaned_computations)
            if "disc" in shared:
                disc = shared["disc"]
                for c in cnames:
                    if disc.computation_agent(c) != host[c]:
                        disc.unregister_computation(c, publish=False)
                        disc.register_computation(c, host[c], publish=False)
            else:
                disc = shared["disc"] = Discovery("orchestrator", "addr_orchestrator")
                for a in agents:
                    disc.register_agent(a, "addr_" + a, publish=False)
                for c in cnames:
                    disc.register_computation(c, host[c], publish=False)
                for c in cnames:
                    for a in sorted(replicas[c]):
                        disc.register_replica(c, a, publish=False)
            nodes = []
            for i, c in enumerate(cnames):
                ls = [Link([cnames[j] for j in l]) for l in case["links"] if i in l]
                nodes.append(ComputationNode(c, "test", links=ls))
            cg = ComputationGraph("test", nodes=nodes)
            got_orph = _removal_orphaned_computations(list(departed_list), disc)
            got_cands = _removal_candidate_agents(list(departed_list), disc)
        ctx = "departed %r, hosts %r, replicas %r" % (departed_list, host, {c: sorted(r) for c, r in replicas.items()})
        if sorted(got_orph) != sorted(orphaned):
            return Outcome(False, "orphaned computations %r != %r (%s)" % (sorted(got_orph), sorted(orphaned), ctx),
                           nontrivial, labels, info={"kind": "orphaned"})
        ref_cands = set(a for o in orphaned for a in cand[o])
        if len(set(got_cands)) != len(got_cands) or set(got_cands) != ref_cands:
            return Outcome(False, "candidate agents %r != surviving replica holders of orphaned computations %r (%s)" % (
                sorted(got_cands), sorted(ref_cands), ctx), nontrivial, labels, info={"kind": "candidate-agents"})
        for a in survivors:
            with under_test():
                info = _removal_candidate_agt_info(a, list(departed_list), cg, disc)
            exp_keys = set(o for o in orphaned if a in replicas[o])
            if set(info) != exp_keys:
                return Outcome(False, "info for agent %s covers %r, expected the orphaned computations it holds a "
                                      "replica of %r (%s)" % (a, sorted(info), sorted(exp_keys), ctx),
                               nontrivial, labels, info={"kind": "info-keys"})
            for o, (agts, fixed, cneigh) in info.items():
                if len(set(agts)) != len(agts) or set(agts) != cand[o]:
                    return Outcome(False, "candidates of %s for agent %s: %r, expected %r (%s)" % (
                        o, a, sorted(agts), sorted(cand[o]), ctx), nontrivial, labels, info={"kind": "candidates"})
                exp_fixed = {n: host[n] for n in neigh[o] if n not in orphaned}
                if dict(fixed) != exp_fixed or any(h in departed for h in fixed.values()):
                    return Outcome(False, "fixed neighbours of %s: %r, expected %r (%s)" % (o, fixed, exp_fixed, ctx),
                                   nontrivial, labels, info={"kind": "fixed"})
                exp_cn = {n: cand[n] for n in neigh[o] if n in orphaned}
                if set(cneigh) != set(exp_cn) or any(
                        len(set(v)) != len(v) or set(v) != exp_cn[n] for n, v in cneigh.items()):
                    return Outcome(False, "orphaned neighbours of %s: %r, expected %r (%s)" % (
                        o, cneigh, {n: sorted(v) for n, v in exp_cn.items()}, ctx), nontrivial, labels,
                        info={"kind": "candidate-neighbours"})
            if not info:
                continue
            # ---- constraints, built from the info as the agent's repair set-up does
            with under_test():
                orphaned_bv, candidate_bv, hosted_cs = {}, {}, {}
                for o, (agts, fixed, cneigh) in info.items():
                    vb = create_binary_variables("B", ([o], agts))
                    orphaned_bv.update(vb)
                    candidate_bv[(o, a)] = vb[(o, a)]
                    hosted_cs[o] = (create_computation_hosted_constraint(o, vb), vb)
                    for n in cneigh:
                        orphaned_bv.update(create_binary_variables("B", ([n], cneigh[n])))
                remaining = case["capacity"][agents.index(a)]
                cap_c = create_agent_capacity_constraint(a, remaining, lambda c: footprint[c], candidate_bv)
                host_c = create_agent_hosting_constraint(a, lambda c, a=a: hosting_cost(a, c), candidate_bv)
                comm_cs = {o: create_agent_comp_comm_constraint(
                    a, o, info[o], lambda c, n, agt, a=a: comm(a, c, n, agt), orphaned_bv) for o in info}
            for o, (rel, vb) in hosted_cs.items():
                keys = list(vb)
                names = [vb[k].name for k in keys]
                if set(d.name for d in rel.dimensions) != set(names):
                    return Outcome(False, "hosted constraint of %s has scope %r, expected %r" % (
                        o, sorted(d.name for d in rel.dimensions), sorted(names)), nontrivial, labels,
                        info={"kind": "hosted-scope"})
                _stats["constraints"] += 1
                for bits in _assignments(len(names)):
                    _stats["assignments"] += 1
                    with under_test():
                        v1, v2 = _values(rel, names, bits)
                    if v1 != v2 or (v1 == 0) != (sum(bits) == 1):
                        return Outcome(False, "hosted constraint of %s on %r = %r / %r; exactly-one is %s" % (
                            o, dict(zip(names, bits)), v1, v2, sum(bits) == 1), nontrivial, labels,
                            info={"kind": "hosted"})
            keys = list(candidate_bv)
            names = [candidate_bv[k].name for k in keys]
            _stats["constraints"] += 2
            for bits in _assignments(len(names)):
                _stats["assignments"] += 1
                with under_test():
                    c1, c2 = _values(cap_c, names, bits)
                    h1, h2 = _values(host_c, names, bits)
                fp = sum(footprint[k[0]] for k, b in zip(keys, bits) if b)
                if c1 != c2 or (c1 == 0) != (fp <= remaining):
                    return Outcome(False, "capacity constraint of %s on %r = %r / %r; selected footprint %r, remaining "
                                          "capacity %r" % (a, dict(zip(names, bits)), c1, c2, fp, remaining),
                                   nontrivial, labels, info={"kind": "capacity"})
                hc = sum(hosting_cost(a, k[0]) for k, b in zip(keys, bits) if b)
                if h1 != h2 or h1 != hc:
                    return Outcome(False, "hosting constraint of %s on %r = %r / %r, expected %r" % (
                        a, dict(zip(names, bits)), h1, h2, hc), nontrivial, labels, info={"kind": "hosting"})
            for o, rel in comm_cs.items():
                agts, fixed, cneigh = info[o]
                scope_keys = [(o, a)] + [(n, ag) for n in cneigh for ag in cneigh[n]]
                names = [orphaned_bv[k].name for k in scope_keys]
                if sorted(d.name for d in rel.dimensions) != sorted(names):
                    return Outcome(False, "communication constraint of %s on %s has scope %r, expected %r" % (
                        o, a, sorted(d.name for d in rel.dimensions), sorted(names)), nontrivial, labels,
                        info={"kind": "comm-scope"})
                _stats["constraints"] += 1
                base = sum(comm(a, o, n, host[n]) for n in neigh[o] if n not in orphaned)
                for bits in _assignments(len(names)):
                    _stats["assignments"] += 1
                    with under_test():
                        v1, v2 = _values(rel, names, bits)
                    exp = bits[0] * (base + sum(b * comm(a, o, k[0], k[1]) for k, b in zip(scope_keys[1:], bits[1:])))
                    if v1 != v2 or abs(v1 - exp) > 1e-9 * max(1, abs(exp)):
                        return Outcome(False, "communication constraint of %s on %s for %r = %r / %r, defining sum %r" % (
                            o, a, dict(zip(names, bits)), v1, v2, exp), nontrivial, labels, info={"kind": "comm"})
    except UnderTestError as e:
        return Outcome(False, "raised %s at %s" % (e, e.frame), nontrivial, labels, info={"exc": e.exc_type})
    return Outcome(True, "", nontrivial, labels,
                   info={"assignments_so_far": _stats["assignments"], "constraints_so_far": _stats["constraints"]})


def postcheck(cov, tier):
    need = ["all-departed", "orphan-without-candidate", "orphaned:3", "departed:1", "departed:2"]
    missing = [l for l in need if not cov["labels"].get(l)]
    return ("classes never generated: %s" % missing) if missing else None
