"""C12  Matrix updates, join and projection follow their algebraic definition."""
from hypothesis import strategies as st

from .. import build, gen, oracles
from ..run import Outcome, UnderTestError, under_test

PROPERTY = "C12"
LEVEL = "exploration"
TECHNIQUE = "property-based testing (Hypothesis): generated relations/ops vs reference table arithmetic"
LEVEL_TEXT = ("Random search over relation tables, scopes, assignments and operations with an exact reference oracle "
              "(table lookups and sums computed from the case description, never through pyDCOP). Thousands of cases "
              "per run cover dict/list forms, overlapping/disjoint/nested joins and projections in both modes, "
              "including magnitudes beyond 2^31, tables stored as int8 / int32 "
              "numpy arrays with values near the ends of the type and near-ties on a 10^10 offset. It samples the input space; it does not prove the algebra.")
LEVEL_NOTE = ("Trusted: numpy, Hypothesis, the reference arithmetic in vf/oracles.py. Assumes |values| <= 1e15 and "
              "asserts the updated cell only when the new value is representable in the table dtype.")
RULE = ("cases = 1-2 matrix relations over <=4 small-domain variables (tables of small ints, dyadic floats, "
        "ints beyond 2^31, magnitudes up to 1e15) with op in {set (dict/list form), join, projection(min/max)}; "
        "oracle = table arithmetic on the case description; non-trivial = some relation of arity>=2 with a "
        "domain of size>=2; distinct by sha1 of the case")
ASSUMPTIONS = ["value-at-cell equality is asserted only when the new value is representable in the table dtype "
               "(an int, or any number when the table holds a float)",
               "|values| <= 1e15 so that sums are exact in float64"]
BUDGET = {"quick": {"workers": 4, "examples": 1500, "seconds": 40},
          "thorough": {"workers": 16, "examples": 18000, "seconds": 450}}

big_ints = st.one_of(st.integers(2**31 - 2, 2**31 + 2), st.integers(-2**31 - 2, -2**31 + 2),
                     st.integers(-10**15, 10**15), st.integers(2**32, 2**40))
COSTS = {
    "small": gen.small_int_costs,
    "float": gen.dyadic_costs,
    "big": st.one_of(big_ints, gen.small_int_costs),
    "bigfloat": st.one_of(st.integers(-10**15, 10**15).map(lambda k: k + 0.5), gen.dyadic_costs),
    # tables handed over as fixed-width numpy arrays (the repository's own tests use np.int8 tables): values near
    # the ends of the type's range, so that sums of two cells leave it
    "int8": st.one_of(st.integers(100, 127), st.integers(-128, -100), st.integers(-128, 127)),
    "int32": st.one_of(st.integers(2**31 - 40, 2**31 - 1), st.integers(-2**31, -2**31 + 40), gen.small_int_costs),
    # near-ties on a large offset: relative differences below 1e-9, absolute ones of a few units
    "offset": st.integers(0, 6).map(lambda k: k + 10**10),
    # integers no float represents exactly (an update or a join must leave the other cells as they are)
    "huge": st.one_of(st.integers(2**53 + 1, 2**53 + 9), st.just(10**18 + 7), st.just(-(10**18) - 3), gen.small_int_costs),
    # hard constraints: infinite entries of one sign (both signs in one sum would be nan)
    "posinf": st.one_of(st.just("inf"), gen.small_int_costs, gen.small_int_costs),
    "neginf": st.one_of(st.just("-inf"), gen.small_int_costs, gen.small_int_costs),
}
DTYPES = {"int8": "int8", "int32": "int32"}


@st.composite
def cases(draw):
    n = draw(st.sampled_from([1, 2, 3, 3, 4, 4]))
    names = draw(st.lists(st.sampled_from(gen.NAME_POOL), min_size=n, max_size=n, unique=True))
    pool = gen.INT_DOMS + gen.STR_DOMS
    domains, variables = {}, []
    for i, nm in enumerate(names):
        domains["d%d" % i] = list(draw(st.sampled_from(pool)))
        variables.append({"name": nm, "domain": "d%d" % i})
    op = draw(st.sampled_from(["set", "set", "join", "proj"]))
    ck = draw(st.sampled_from(sorted(COSTS)))
    rels = []
    for k in range(2 if op == "join" else 1):
        a = draw(st.sampled_from([x for x in [0, 1, 1, 2, 2, 2, 3, 3, 4] if (x >= 1 or op != "proj") and x <= n]))
        scope = draw(st.lists(st.sampled_from(names), min_size=a, max_size=a, unique=True))
        shape = [len(domains["d%d" % names.index(s)]) for s in scope]
        rels.append({"name": "r%d" % k, "scope": scope, "kind": "matrix",
                     "table": gen.nested_table(draw, shape, COSTS[ck])})
        if ck in DTYPES:
            rels[-1]["dtype"] = DTYPES[ck]
    case = {"domains": domains, "variables": variables, "constraints": rels, "op": op, "costs": ck}
    scope = rels[0]["scope"]
    if op == "set":
        case["assignment"] = [draw(st.sampled_from(domains["d%d" % names.index(s)])) for s in scope]
        case["new_value"] = draw(COSTS[ck] if ck in DTYPES else
                                 st.one_of(COSTS[ck], gen.small_int_costs, gen.dyadic_costs))
        if isinstance(case["new_value"], str) and not _has_float(build.np_table(rels[0]).tolist()):
            case["new_value"] = 0   # an infinite value only goes into a table that already stores floats
        case["form"] = draw(st.sampled_from(["dict", "list"]))
        # the dict form names its variables: its key order is free (a permutation seed, 0 = dimension order)
        case["key_order"] = draw(st.integers(0, 23))
    if op == "proj":
        case["proj_var"] = draw(st.sampled_from(scope))
        case["mode"] = draw(st.sampled_from(["min", "max"]))
    return case


def case_strategy(tier):
    return cases()


def _has_float(t):
    if isinstance(t, list):
        return any(_has_float(x) for x in t)
    return isinstance(t, float)


def _check_values(desc, rel, scope, ref, what):
    """rel must agree with ref(assignment) on every assignment of `scope` (names)."""
    for a in oracles.all_assignments(desc, scope):
        with under_test():
            got = rel(**a) if a else rel.get_value_for_assignment({})
        got = got.item() if hasattr(got, "item") else got
        exp = ref(a)
        if not oracles.close(got, exp, 1e-12):
            return "%s: value %r != expected %r at %r" % (what, got, exp, a)
    return None


def run_case(case):
    desc = case
    op = case["op"]
    labels = ["op:" + op, "costs:" + case["costs"]]
    rels = case["constraints"]
    nontrivial = any(len(r["scope"]) >= 2 and any(len(oracles.domain_of(desc, s)) >= 2 for s in r["scope"])
                     for r in rels)
    try:
        with under_test():
            from pydcop.dcop import relations as R
            domains = build.build_domains(desc)
            variables = {v["name"]: build.build_variable(desc, v, domains) for v in desc["variables"]}
            objs = [build.build_constraint(desc, r, variables) for r in rels]
        r0, d0 = objs[0], rels[0]
        if op == "set":
            labels.append("form:" + case["form"])
            labels.append("arity:%d" % len(d0["scope"]))
            pairs = list(zip(d0["scope"], case["assignment"]))
            seed, ordered = case.get("key_order", 0), []
            while pairs:
                seed, i = divmod(seed, len(pairs))
                ordered.append(pairs.pop(i))
            ass = dict(ordered)
            if list(ass) != list(d0["scope"]):
                labels.append("dict-keys-permuted")
            new = oracles.num(case["new_value"])
            with under_test():
                res = r0.set_value_for_assignment(ass if case["form"] == "dict" else list(case["assignment"]), new)
                other = r0.set_value_for_assignment(list(case["assignment"]) if case["form"] == "dict" else ass, new)
            names = [v.name for v in res.dimensions]
            if names != d0["scope"]:
                return Outcome(False, "set: dimensions changed %r -> %r" % (d0["scope"], names), nontrivial, labels)
            why = _check_values(desc, r0, d0["scope"], lambda a: oracles.constraint_value(desc, d0, a),
                                "set: original relation modified")
            representable = isinstance(new, int) or _has_float(d0["table"])
            labels.append("representable" if representable else "lossy-cast")

            def ref(a):
                if a == ass:
                    return new
                return oracles.constraint_value(desc, d0, a)

            for which, r in (("result", res), ("other-form result", other)):
                if why:
                    break
                for a in oracles.all_assignments(desc, d0["scope"]):
                    if a == ass and not representable:
                        continue
                    with under_test():
                        got = r(**a) if a else r.get_value_for_assignment({})
                    got = got.item() if hasattr(got, "item") else got
                    # no arithmetic is involved: every other cell must hold the very number it held (python's
                    # int/float comparison is exact, unlike a difference computed in floats)
                    if not (got == ref(a)):
                        why = "set(%s): %s value %r != expected %r at %r" % (case["form"], which, got, ref(a), a)
                        break
            if why:
                return Outcome(False, why, nontrivial, labels)
        elif op == "join":
            d1 = rels[1]
            s0, s1 = set(d0["scope"]), set(d1["scope"])
            labels.append("overlap:" + ("same" if s0 == s1 else "disjoint" if not (s0 & s1) else
                                        "nested" if s0 <= s1 or s1 <= s0 else "partial"))
            with under_test():
                j = R.join(objs[0], objs[1])
            names = [v.name for v in j.dimensions]
            exp_names = d0["scope"] + [s for s in d1["scope"] if s not in d0["scope"]]
            if sorted(names) != sorted(exp_names) or len(names) != len(set(names)):
                return Outcome(False, "join: scope %r != union %r" % (names, exp_names), nontrivial, labels)
            why = _check_values(desc, j, names, lambda a: oracles.constraint_value(desc, d0, a) +
                                oracles.constraint_value(desc, d1, a), "join")
            if not why:  # arguments untouched
                why = _check_values(desc, objs[0], d0["scope"], lambda a: oracles.constraint_value(desc, d0, a),
                                    "join: first argument modified")
            if why:
                return Outcome(False, why, nontrivial, labels)
        elif op == "proj":
            x, mode = case["proj_var"], case["mode"]
            labels += ["mode:" + mode, "arity:%d" % len(d0["scope"])]
            with under_test():
                p = R.projection(r0, variables[x], mode)
            names = [v.name for v in p.dimensions]
            exp_names = [s for s in d0["scope"] if s != x]
            if names != exp_names:
                return Outcome(False, "projection: scope %r != %r" % (names, exp_names), nontrivial, labels)
            opt = min if mode == "min" else max

            def ref(a):
                return opt(oracles.constraint_value(desc, d0, dict(a, **{x: val}))
                           for val in oracles.domain_of(desc, x))

            why = _check_values(desc, p, names, ref, "projection(%s)" % mode)
            if why:
                return Outcome(False, why, True, labels)
            nontrivial = True if len(d0["scope"]) >= 2 else nontrivial
    except UnderTestError as e:
        return Outcome(False, "%s raised %s at %s" % (op, e, e.frame), nontrivial, labels,
                       info={"exc": e.exc_type, "frame": e.frame})
    return Outcome(True, "", nontrivial, labels)
