"""C16  Computation graphs faithfully mirror the DCOP."""
from hypothesis import strategies as st

from .. import build, gen, oracles
from ..run import Outcome, UnderTestError, under_test

PROPERTY = "C16"
LEVEL = "exploration"
TECHNIQUE = ("property-based testing (Hypothesis): generated DCOPs -> constraints hypergraph / factor graph / ordered "
             "graph, compared node by node with a reference built from the case description")
LEVEL_TEXT = ("Generated DCOPs with up to 8 variables (names with adversarial lexical orderings such as v1 < v10 < v2), "
              "unary/binary/n-ary constraints, isolated variables, duplicate scopes. For each of the three graph "
              "builders the oracle recomputes from the description which nodes, node types, per-node constraints, "
              "neighbour sets and (for the ordered graph) next/previous links must exist and compares exactly; "
              "symmetry and bipartiteness follow from the exact comparison. In 3 cases out of 8 the same DCOP object is then "
              "edited 1-3 times (constraint re-defined under its name with another scope, added, removed, removed and "
              "re-inserted) and after each edit the three graphs are built again and compared with the edited "
              "description. Sampling of DCOP shapes and edit histories.")
LEVEL_NOTE = "Trusted: the reference adjacency computed in vf/oracles.py (a dozen lines)."
RULE = ("case = DCOP description; non-trivial = >=3 variables, a constraint of arity>=3 or two constraints with the "
        "same scope, and >=1 isolated or unary-only variable or >=5 variables; distinct by sha1(case)")
ASSUMPTIONS = ["variable and constraint names are distinct identifiers"]
BUDGET = {"quick": {"workers": 8, "examples": 900, "seconds": 40},
          "thorough": {"workers": 16, "examples": 15000, "seconds": 450}}


@st.composite
def cases(draw):
    desc = draw(gen.dcops(min_vars=1, max_vars=8, min_dom=1, max_dom=2, max_constraints=9, arities=(1, 2, 2, 3, 4),
                          var_costs=False, costs=gen.small_int_costs))
    case = {"dcop": desc}
    names = [v["name"] for v in desc["variables"]]
    doms = {v["name"]: desc["domains"][v["domain"]] for v in desc["variables"]}
    edits = []
    # a DCOP object is a mutable model (add_constraint replaces a constraint of the same name, dcop.constraints is
    # the live dict): one case in three edits the same object after its graphs were built and builds them again
    for _ in range(draw(st.sampled_from([0, 0, 0, 0, 1, 1, 2, 3]))):
        kind = draw(st.sampled_from(["redefine", "redefine", "add", "remove", "reinsert"]))
        a = draw(st.integers(1, min(4, len(names))))
        scope = draw(st.lists(st.sampled_from(names), min_size=a, max_size=a, unique=True))
        table = gen.nested_table(draw, [len(doms[s]) for s in scope], gen.small_int_costs)
        edits.append({"kind": kind, "index": draw(st.integers(0, 8)), "scope": scope, "table": table})
    if edits:
        case["edits"] = edits
    return case


def case_strategy(tier):
    return cases()


def apply_edit(desc, e):
    """-> (new description, action) ; action = ("set", constraint desc) | ("del", name) | ("reinsert", constraint desc)."""
    cons = [dict(c) for c in desc["constraints"]]
    new = dict(desc, constraints=cons)
    kind = e["kind"]
    if kind in ("redefine", "remove", "reinsert") and not cons:
        kind = "add"
    if kind == "add":
        name = "k%d" % len(cons)
        while any(c["name"] == name for c in cons):
            name += "_"
        c = {"name": name, "scope": e["scope"], "kind": "matrix", "table": e["table"]}
        cons.append(c)
        return new, ("set", c)
    i = e["index"] % len(cons)
    if kind == "remove":
        c = cons.pop(i)
        return new, ("del", c["name"])
    c = {"name": cons[i]["name"], "scope": e["scope"], "kind": "matrix", "table": e["table"]}
    if kind == "redefine":
        cons[i] = c  # a dict keeps the position of a replaced key
        return new, ("set", c)
    cons.pop(i)
    cons.append(c)
    return new, ("reinsert", c)


def run_case(case):
    desc = case["dcop"]
    labels = []
    nontrivial = False
    try:
        with under_test():
            dcop, variables, _ = build.build_dcop(desc)
        out = check_graphs(dcop, desc, "")
        nontrivial = out.nontrivial
        labels = list(out.labels)
        if not out.ok:
            return out
        for k, e in enumerate(case.get("edits", [])):
            desc, action = apply_edit(desc, e)
            with under_test():
                if action[0] == "del":
                    del dcop.constraints[action[1]]
                else:
                    if action[0] == "reinsert":
                        del dcop.constraints[action[1]["name"]]
                    dcop.add_constraint(build.build_constraint(desc, action[1], variables))
            labels.append("edit:" + e["kind"])
            out = check_graphs(dcop, desc, "after edit %d (%s %s): " % (k + 1, action[0],
                                                                        action[1] if action[0] == "del" else
                                                                        "%s on %r" % (action[1]["name"], action[1]["scope"])))
            if not out.ok:
                return Outcome(False, out.why, nontrivial, labels, info={"edited": True})
    except UnderTestError as e:
        return Outcome(False, "raised %s at %s" % (e, e.frame), nontrivial, labels, info={"exc": e.exc_type})
    return Outcome(True, "", nontrivial, labels)


def check_graphs(dcop, desc, where):
    names = [v["name"] for v in desc["variables"]]
    cons_of = {n: [c["name"] for c in desc["constraints"] if n in c["scope"]] for n in names}
    nb = oracles.neighbours(desc)
    scopes = [tuple(sorted(c["scope"])) for c in desc["constraints"]]
    labels = ["n:%d" % min(len(names), 8)]
    dup = len(scopes) != len(set(scopes))
    if dup:
        labels.append("dup-scope")
    isolated = [n for n in names if not nb[n]]
    if isolated:
        labels.append("isolated")
    nontrivial = (len(names) >= 3 and (dup or any(len(c["scope"]) >= 3 for c in desc["constraints"]))
                  and (bool(isolated) or len(names) >= 5))
    try:
        with under_test():
            from pydcop.computations_graph import constraints_hypergraph, factor_graph, ordered_graph
            hg = constraints_hypergraph.build_computation_graph(dcop)
        # ---- constraints hyper-graph
        hn = {n.name: n for n in hg.nodes}
        if sorted(hn) != sorted(names) or len(hg.nodes) != len(names):
            return Outcome(False, where + "hypergraph nodes %r != variables %r" % (sorted(n.name for n in hg.nodes), sorted(names)),
                           nontrivial, labels)
        for n in names:
            node = hn[n]
            got = sorted(c.name for c in node.constraints)
            if got != sorted(cons_of[n]) or node.variable.name != n:
                return Outcome(False, where + "hypergraph node %s lists constraints %r, expected %r" % (n, got, sorted(cons_of[n])),
                               nontrivial, labels)
            gnb = list(node.neighbors)
            if sorted(gnb) != sorted(nb[n]):
                return Outcome(False, where + "hypergraph node %s neighbours %r, expected %r" % (n, sorted(gnb), sorted(nb[n])),
                               nontrivial, labels)
            if sorted(hg.neighbors(n)) != sorted(nb[n]):
                return Outcome(False, where + "hypergraph.neighbors(%s) = %r, expected %r" % (n, sorted(hg.neighbors(n)), sorted(nb[n])),
                               nontrivial, labels)
            lk = sorted((getattr(l, "name", None), tuple(sorted(l.nodes))) for l in node.links)
            exp = sorted((c["name"], tuple(sorted(c["scope"]))) for c in desc["constraints"] if n in c["scope"])
            if lk != exp:
                return Outcome(False, where + "hypergraph node %s links %r, expected %r" % (n, lk, exp), nontrivial, labels)
        # ---- factor graph
        with under_test():
            fg = factor_graph.build_computation_graph(dcop)
        fn = {}
        for node in fg.nodes:
            if node.name in fn:
                return Outcome(False, where + "factor graph has two nodes named %s" % node.name, nontrivial, labels)
            fn[node.name] = node
        cnames = [c["name"] for c in desc["constraints"]]
        if sorted(fn) != sorted(names + cnames):
            return Outcome(False, where + "factor graph nodes %r != variables+constraints %r" % (sorted(fn), sorted(names + cnames)),
                           nontrivial, labels)
        for n in names:
            node = fn[n]
            if node.type != "VariableComputation" or sorted(node.neighbors) != sorted(cons_of[n]):
                return Outcome(False, where + "factor graph variable node %s: type %s neighbours %r, expected factors %r" % (
                    n, node.type, sorted(node.neighbors), sorted(cons_of[n])), nontrivial, labels)
        for c in desc["constraints"]:
            node = fn[c["name"]]
            if node.type != "FactorComputation" or sorted(node.neighbors) != sorted(c["scope"]):
                return Outcome(False, where + "factor graph factor node %s: type %s neighbours %r, expected scope %r" % (
                    c["name"], node.type, sorted(node.neighbors), sorted(c["scope"])), nontrivial, labels)
            if sorted(v.name for v in node.variables) != sorted(c["scope"]) or node.factor.name != c["name"]:
                return Outcome(False, where + "factor node %s carries factor %s over %r" % (
                    c["name"], node.factor.name, [v.name for v in node.variables]), nontrivial, labels)
        # ---- ordered graph
        with under_test():
            og = ordered_graph.build_computation_graph(dcop)
        on = {n.name: n for n in og.nodes}
        if sorted(on) != sorted(names) or len(og.nodes) != len(names):
            return Outcome(False, where + "ordered graph nodes %r != variables %r" % (sorted(n.name for n in og.nodes), sorted(names)),
                           nontrivial, labels)
        order = sorted(names)
        for i, n in enumerate(order):
            node = on[n]
            with under_test():
                nxt, prv = node.get_next(), node.get_previous()
            en = order[i + 1] if i + 1 < len(order) else None
            ep = order[i - 1] if i > 0 else None
            if nxt != en or prv != ep:
                return Outcome(False, where + "ordered graph: %s has next=%r previous=%r, expected next=%r previous=%r (order %r)"
                               % (n, nxt, prv, en, ep, order), nontrivial, labels)
            nl = [l for l in node.links if l.type == "next"]
            pl = [l for l in node.links if l.type == "previous"]
            if len(nl) != (1 if en else 0) or len(pl) != (1 if ep else 0):
                return Outcome(False, where + "ordered graph: %s has %d next and %d previous links" % (n, len(nl), len(pl)),
                               nontrivial, labels)
            got = sorted(c.name for c in node.constraints)
            if got != sorted(cons_of[n]):
                return Outcome(False, where + "ordered graph node %s lists constraints %r, expected %r" % (n, got, sorted(cons_of[n])),
                               nontrivial, labels)
    except UnderTestError as e:
        return Outcome(False, where + "raised %s at %s" % (e, e.frame), nontrivial, labels, info={"exc": e.exc_type})
    return Outcome(True, "", nontrivial, labels)
