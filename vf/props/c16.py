"""C16  Computation graphs faithfully mirror the DCOP."""
from hypothesis import strategies as st

from .. import build, gen, oracles
from ..run import Outcome, UnderTestError, under_test

PROPERTY = "C16"
LEVEL = "exploration"
TECHNIQUE = ("property-based testing (Hypothesis): generated DCOPs -> constraints hypergraph / factor graph / ordered "
             "graph, compared node by node with a reference built from the case description")
LEVEL_TEXT = ("Generated DCOPs with up to 8 variables (names with adversarial lexical orderings such as v1 < v10 < v2), "
              "unary/binary/n-ary constraints, isolated variables, duplicate scopes. For each of the three graph "
              "builders the oracle recomputes from the description which nodes, node types, per-node constraints, "
              "neighbour sets and (for the ordered graph) next/previous links must exist and compares exactly; "
              "symmetry and bipartiteness follow from the exact comparison. Sampling of DCOP shapes.")
LEVEL_NOTE = "Trusted: the reference adjacency computed in vf/oracles.py (a dozen lines)."
RULE = ("case = DCOP description; non-trivial = >=3 variables, a constraint of arity>=3 or two constraints with the "
        "same scope, and >=1 isolated or unary-only variable or >=5 variables; distinct by sha1(case)")
ASSUMPTIONS = ["variable and constraint names are distinct identifiers"]
BUDGET = {"quick": {"workers": 4, "examples": 600, "seconds": 40},
          "thorough": {"workers": 16, "examples": 5000, "seconds": 400}}


def case_strategy(tier):
    return gen.dcops(min_vars=1, max_vars=8, min_dom=1, max_dom=2, max_constraints=9, arities=(1, 2, 2, 3, 4),
                     var_costs=False, costs=gen.small_int_costs).map(lambda d: {"dcop": d})


def run_case(case):
    desc = case["dcop"]
    names = [v["name"] for v in desc["variables"]]
    cons_of = {n: [c["name"] for c in desc["constraints"] if n in c["scope"]] for n in names}
    nb = oracles.neighbours(desc)
    scopes = [tuple(sorted(c["scope"])) for c in desc["constraints"]]
    labels = ["n:%d" % min(len(names), 8)]
    dup = len(scopes) != len(set(scopes))
    if dup:
        labels.append("dup-scope")
    isolated = [n for n in names if not nb[n]]
    if isolated:
        labels.append("isolated")
    nontrivial = (len(names) >= 3 and (dup or any(len(c["scope"]) >= 3 for c in desc["constraints"]))
                  and (bool(isolated) or len(names) >= 5))
    try:
        with under_test():
            from pydcop.computations_graph import constraints_hypergraph, factor_graph, ordered_graph
            dcop, _, _ = build.build_dcop(desc)
            hg = constraints_hypergraph.build_computation_graph(dcop)
        # ---- constraints hyper-graph
        hn = {n.name: n for n in hg.nodes}
        if sorted(hn) != sorted(names) or len(hg.nodes) != len(names):
            return Outcome(False, "hypergraph nodes %r != variables %r" % (sorted(n.name for n in hg.nodes), sorted(names)),
                           nontrivial, labels)
        for n in names:
            node = hn[n]
            got = sorted(c.name for c in node.constraints)
            if got != sorted(cons_of[n]) or node.variable.name != n:
                return Outcome(False, "hypergraph node %s lists constraints %r, expected %r" % (n, got, sorted(cons_of[n])),
                               nontrivial, labels)
            gnb = list(node.neighbors)
            if sorted(gnb) != sorted(nb[n]):
                return Outcome(False, "hypergraph node %s neighbours %r, expected %r" % (n, sorted(gnb), sorted(nb[n])),
                               nontrivial, labels)
            if sorted(hg.neighbors(n)) != sorted(nb[n]):
                return Outcome(False, "hypergraph.neighbors(%s) = %r, expected %r" % (n, sorted(hg.neighbors(n)), sorted(nb[n])),
                               nontrivial, labels)
            lk = sorted((getattr(l, "name", None), tuple(sorted(l.nodes))) for l in node.links)
            exp = sorted((c["name"], tuple(sorted(c["scope"]))) for c in desc["constraints"] if n in c["scope"])
            if lk != exp:
                return Outcome(False, "hypergraph node %s links %r, expected %r" % (n, lk, exp), nontrivial, labels)
        # ---- factor graph
        with under_test():
            fg = factor_graph.build_computation_graph(dcop)
        fn = {}
        for node in fg.nodes:
            if node.name in fn:
                return Outcome(False, "factor graph has two nodes named %s" % node.name, nontrivial, labels)
            fn[node.name] = node
        cnames = [c["name"] for c in desc["constraints"]]
        if sorted(fn) != sorted(names + cnames):
            return Outcome(False, "factor graph nodes %r != variables+constraints %r" % (sorted(fn), sorted(names + cnames)),
                           nontrivial, labels)
        for n in names:
            node = fn[n]
            if node.type != "VariableComputation" or sorted(node.neighbors) != sorted(cons_of[n]):
                return Outcome(False, "factor graph variable node %s: type %s neighbours %r, expected factors %r" % (
                    n, node.type, sorted(node.neighbors), sorted(cons_of[n])), nontrivial, labels)
        for c in desc["constraints"]:
            node = fn[c["name"]]
            if node.type != "FactorComputation" or sorted(node.neighbors) != sorted(c["scope"]):
                return Outcome(False, "factor graph factor node %s: type %s neighbours %r, expected scope %r" % (
                    c["name"], node.type, sorted(node.neighbors), sorted(c["scope"])), nontrivial, labels)
            if sorted(v.name for v in node.variables) != sorted(c["scope"]) or node.factor.name != c["name"]:
                return Outcome(False, "factor node %s carries factor %s over %r" % (
                    c["name"], node.factor.name, [v.name for v in node.variables]), nontrivial, labels)
        # ---- ordered graph
        with under_test():
            og = ordered_graph.build_computation_graph(dcop)
        on = {n.name: n for n in og.nodes}
        if sorted(on) != sorted(names) or len(og.nodes) != len(names):
            return Outcome(False, "ordered graph nodes %r != variables %r" % (sorted(n.name for n in og.nodes), sorted(names)),
                           nontrivial, labels)
        order = sorted(names)
        for i, n in enumerate(order):
            node = on[n]
            with under_test():
                nxt, prv = node.get_next(), node.get_previous()
            en = order[i + 1] if i + 1 < len(order) else None
            ep = order[i - 1] if i > 0 else None
            if nxt != en or prv != ep:
                return Outcome(False, "ordered graph: %s has next=%r previous=%r, expected next=%r previous=%r (order %r)"
                               % (n, nxt, prv, en, ep, order), nontrivial, labels)
            nl = [l for l in node.links if l.type == "next"]
            pl = [l for l in node.links if l.type == "previous"]
            if len(nl) != (1 if en else 0) or len(pl) != (1 if ep else 0):
                return Outcome(False, "ordered graph: %s has %d next and %d previous links" % (n, len(nl), len(pl)),
                               nontrivial, labels)
            got = sorted(c.name for c in node.constraints)
            if got != sorted(cons_of[n]):
                return Outcome(False, "ordered graph node %s lists constraints %r, expected %r" % (n, got, sorted(cons_of[n])),
                               nontrivial, labels)
    except UnderTestError as e:
        return Outcome(False, "raised %s at %s" % (e, e.frame), nontrivial, labels, info={"exc": e.exc_type})
    return Outcome(True, "", nontrivial, labels)
