"""C18  Agent messaging delivers each message once, by priority, FIFO per sender."""
import threading
import time

from hypothesis import strategies as st

from ..run import Outcome, UnderTestError, under_test

PROPERTY = "C18"
LEVEL = "exploration"
TECHNIQUE = ("property-based testing (Hypothesis): (a) model-based histories of post / register / next / shutdown on a "
             "real Messaging + in-process transport + Discovery compared step by step with a reference priority "
             "queue; (b) real sender threads with generated operation lists and generated scheduling perturbation "
             "posting into a started Agent, history invariants over the handler log")
LEVEL_TEXT = ("(a) Sequential histories (<= 40 operations) over 3 destination computations, 3 senders and the three "
              "message priorities: post, register a destination, fetch the next message, shut down; the reference model "
              "is a list ordered by (message type, arrival) with per-destination holding of messages posted before "
              "registration; every next_msg result must equal the model's, messages are handed over exactly once, "
              "messages held for an unregistered destination are released in posting order when it registers, and "
              "after shutdown nothing new is accepted while everything queued is still returned. (b) A real Agent "
              "thread hosting recording computations; messages pre-loaded before agent.start(); 1-3 sender threads "
              "with generated (destination, type) lists and generated micro-sleeps, sys.setswitchinterval lowered, "
              "one destination registered late from the main thread after a generated delay; then all senders are "
              "joined, clean_shutdown() and join(). Invariants over the handler log: every message posted before "
              "shutdown to a destination that was (eventually) registered is handled exactly once, on the agent's "
              "thread; for each (sender thread, destination, type) handling order == posting order; pre-loaded "
              "messages are handled in (type, posting order) order; nothing posted after shutdown is handled. "
              "Interleavings in (b) are perturbed, not enumerated. "
              "In a quarter of the histories all messages have equal content (and a harness-side id).")
LEVEL_NOTE = ("Trusted: the reference queue model (a dozen lines) and the log invariants. (b) cannot force a given "
              "preemption: a race needing a window of a few bytecodes is likely to be missed; (a) checks the same "
              "logic deterministically.")
RULE = ("case = operation history (a) or sender programs + perturbation table (b); non-trivial = (a) at least one "
        "fetch with >=2 queued messages of different types and one registration releasing >=2 held messages, (b) "
        ">=2 sender threads and a late registration with held messages; distinct by sha1(case)")
ASSUMPTIONS = ["(b) the late registration happens from the main thread through Agent.add_computation, the documented "
               "way to add a computation to a running agent"]
BUDGET = {"quick": {"workers": 6, "examples": 700, "seconds": 40},
          "thorough": {"workers": 16, "examples": 8000, "seconds": 900}}

DESTS = ["c1", "c2", "c10"]
SENDERS = ["s1", "s2", "x"]
TYPES = [10, 15, 20, None]

op_post = st.tuples(st.just("post"), st.integers(0, 2), st.sampled_from([0, 1, 2, 2]), st.sampled_from(TYPES))
op_reg = st.tuples(st.just("register"), st.integers(0, 2))
# a registration during which "another thread" posts to the computation being registered: the post lands after the
# registration became visible and before Messaging's registration callback ran (the harness owns this interleaving)
op_reg_race = st.tuples(st.just("register"), st.integers(0, 2), st.integers(0, 2), st.sampled_from(TYPES))
op_next = st.tuples(st.just("next"))
op_shut = st.tuples(st.just("shutdown"))
# a post to an unregistered computation that "another thread" registers right after post_msg found it unknown and
# before post_msg parked the message (the harness performs the registration when post_msg subscribes to the computation)
# a backlog: several posts in a row (expanded before the run), mostly to the destinations registered from the start
op_burst = st.tuples(st.just("burst"), st.integers(0, 2), st.sampled_from([0, 0, 1, 2]), st.sampled_from(TYPES),
                     st.integers(2, 5))
op_post_race = st.tuples(st.just("post_race_reg"), st.integers(0, 2), st.integers(0, 2), st.sampled_from(TYPES))


class _Same:
    """Message content that compares equal to any other one of its kind - what an algorithm message repeating a value
    looks like to anything that compares messages - while carrying the id the harness follows."""

    def __init__(self, mid):
        self.mid = mid

    def __eq__(self, other):
        return isinstance(other, _Same)

    def __hash__(self):
        return 0

    def __repr__(self):
        return "same#%d" % self.mid


def _content(case, mid):
    return _Same(mid) if case.get("same_content") else mid


def _mid(msg):
    c = msg.content
    return c.mid if isinstance(c, _Same) else c


@st.composite
def seq_cases(draw):
    # the two interleaved operations hit listed findings, which ends the comparison for that history: keep them to a
    # quarter of the histories so that the rest is explored to the end
    if draw(st.integers(0, 3)) == 0:
        pool = st.one_of(op_post, op_post, op_post, op_post, op_reg, op_reg_race, op_post_race, op_next, op_next)
    else:
        pool = st.one_of(op_post, op_post, op_burst, op_reg, op_next, op_next, op_next)
    ops = draw(st.lists(pool, min_size=1, max_size=40))
    expanded = []
    for o in ops:
        if o[0] == "burst":
            expanded += [["post", o[1], o[2], o[3]] for _ in range(o[4])]
        else:
            expanded.append(list(o))
    ops = expanded[:60]
    if draw(st.integers(0, 2)) == 0:
        pos = draw(st.integers(0, len(ops)))
        ops.insert(pos, ["shutdown"])
    # destination 2 is rarely registered from the start: posts to it pile up until a register operation
    pre = draw(st.lists(st.integers(0, 1), max_size=2, unique=True)) + ([2] if draw(st.integers(0, 4)) == 0 else [])
    # one history in four: every message has the same (equal) content, as repeated algorithm messages have
    return {"mode": "seq", "pre_registered": pre, "ops": ops, "same_content": draw(st.integers(0, 3)) == 0}


@st.composite
def thread_cases(draw):
    nthreads = draw(st.integers(1, 3))
    progs = []
    for _ in range(nthreads):
        progs.append(draw(st.lists(st.tuples(st.integers(0, 2), st.sampled_from(TYPES), st.integers(0, 3)),
                                   min_size=1, max_size=15)))
    return {"mode": "threads",
            "preload": draw(st.lists(st.tuples(st.integers(0, 1), st.sampled_from(TYPES)), max_size=8)),
            "programs": [[list(p) for p in prog] for prog in progs],
            "late": draw(st.sampled_from([None, 2, 2])),
            "late_after_ms": draw(st.integers(0, 6)),
            "switch_us": draw(st.sampled_from([5, 50, 500, 5000])),
            "reg_delay_us": draw(st.sampled_from([0, 0, 200, 1000])),
            "after_shutdown_posts": draw(st.integers(0, 3)),
            # a periodic action registered on the agent and lasting this many ms (0: none): posts and the shutdown
            # request can then arrive while the agent thread is inside it
            "periodic_ms": draw(st.sampled_from([0, 0, 3, 20])),
            "tail_pause_ms": draw(st.sampled_from([0, 0, 70, 120])),
            "same_content": draw(st.integers(0, 3)) == 0}


@st.composite
def backlog_cases(draw):
    """Sequential histories built around a backlog: a run of same-type posts, some fetches, more posts, fetches ..."""
    ops = []
    ty = draw(st.sampled_from(TYPES))
    for _ in range(draw(st.integers(1, 4))):
        n = draw(st.integers(2, 6))
        s, d = draw(st.integers(0, 2)), draw(st.integers(0, 1))
        ops += [["post", s, d, ty if draw(st.integers(0, 3)) else draw(st.sampled_from(TYPES))] for _ in range(n)]
        ops += [["next"] for _ in range(draw(st.integers(1, n)))]
    ops += [["post", draw(st.integers(0, 2)), draw(st.integers(0, 1)), ty]]
    return {"mode": "seq", "pre_registered": [0, 1], "ops": ops}


def case_strategy(tier):
    return st.one_of(seq_cases(), seq_cases(), backlog_cases(), thread_cases())


# --------------------------------------------------------------------------- (a) sequential, model based


def run_seq(case):
    labels = ["mode:seq"]
    with under_test():
        from pydcop.infrastructure.communication import InProcessCommunicationLayer, Messaging
        from pydcop.infrastructure.computations import Message
        from pydcop.infrastructure.discovery import Discovery
        comm = InProcessCommunicationLayer()
        disc = Discovery("a1", comm)
        comm.discovery = disc
        msging = Messaging("a1", comm)
        disc.discovery_computation.message_sender = msging.post_msg
        armed = []          # racing posts to perform when the registration callback is entered
        orig_cb = msging._on_computation_registration

        def racing_cb(evt, computation, agt):
            while armed:
                armed.pop(0)()
            return orig_cb(evt, computation, agt)
        msging._on_computation_registration = racing_cb     # before any subscription stores the bound method
        armed_sub = []      # registrations "another thread" performs while post_msg is between lookup and parking
        orig_sub = disc.subscribe_computation

        def racing_sub(*a, **k):
            while armed_sub:
                armed_sub.pop(0)()
            return orig_sub(*a, **k)
        disc.subscribe_computation = racing_sub
        disc.register_agent("a1", comm, publish=False)
        for d in case["pre_registered"]:
            disc.register_computation(DESTS[d], "a1", publish=False)
    registered = set(DESTS[d] for d in case["pre_registered"])
    queue = []          # (type, arrival, id)
    held = {d: [] for d in DESTS}
    arrival = [0]
    shutdown = False
    handed = []
    nid = [0]
    multi_fetch = False
    big_release = False
    posted_payload = {}
    race_ids = set()
    parked_ids = set()

    def enqueue(ty, mid):
        arrival[0] += 1
        queue.append((20 if ty is None else ty, arrival[0], mid))

    def check_next(where):
        with under_test():
            full, _t = msging.next_msg(0)
        exp = min(queue) if queue else None
        if exp is None:
            if full is not None:
                return "%s: next_msg returned %r but the model queue is empty" % (where, full)
            return None
        if exp[2] in parked_ids and (full is None or _mid(full[2]) != exp[2]):
            labels.append("parked-forever-after-registration-inside-post")
        if full is None:
            return "%s: next_msg returned nothing but message #%d (type %d) is queued" % (where, exp[2], exp[0])
        src, dst, msg, ty = full
        mid = _mid(msg)
        if mid != exp[2]:
            if mid in race_ids or exp[2] in race_ids:
                labels.append("order-break-at-racing-registration")
            return "%s: next_msg handed message #%r (type %r, %s->%s) but the model expects #%d (type %d); queue %r" % (
                where, mid, ty, src, dst, exp[2], exp[0], sorted(queue))
        if (src, dst) != posted_payload[mid][:2] or (20 if posted_payload[mid][2] is None else posted_payload[mid][2]) != ty:
            return "%s: message #%d came back as %s->%s type %r, posted as %r" % (where, mid, src, dst, ty,
                                                                                  posted_payload[mid])
        queue.remove(exp)
        if mid in handed:
            return "%s: message #%d handed twice" % (where, mid)
        handed.append(mid)
        return None

    for i, op in enumerate(case["ops"]):
        if op[0] == "post":
            _, s, d, ty = op
            nid[0] += 1
            mid = nid[0]
            posted_payload[mid] = (SENDERS[s], DESTS[d], ty)
            with under_test():
                if ty is None:
                    msging.post_msg(SENDERS[s], DESTS[d], Message("probe", _content(case, mid)))
                else:
                    msging.post_msg(SENDERS[s], DESTS[d], Message("probe", _content(case, mid)), ty)
            if shutdown:
                continue
            if DESTS[d] in registered:
                enqueue(ty, mid)
            else:
                held[DESTS[d]].append((ty, mid))
        elif op[0] == "register":
            d = DESTS[op[1]]
            racing = None
            if len(op) > 2 and d not in registered and held[d] and not shutdown:
                nid[0] += 1
                # same sender and type as a held message (picked by op[2]): the property orders exactly such pairs
                h_ty, h_mid = held[d][op[2] % len(held[d])]
                racing = (nid[0], posted_payload[h_mid][0], h_ty)
                posted_payload[racing[0]] = (racing[1], d, racing[2])

                def race_post(racing=racing, d=d):
                    if racing[2] is None:
                        msging.post_msg(racing[1], d, Message("probe", _content(case, racing[0])))
                    else:
                        msging.post_msg(racing[1], d, Message("probe", _content(case, racing[0])), racing[2])
                armed.append(race_post)
                labels.append("racing-registration") if "racing-registration" not in labels else None
            with under_test():
                disc.register_computation(d, "a1", publish=False)
            del armed[:]
            if d not in registered:
                registered.add(d)
                if len(held[d]) >= 2:
                    big_release = True
                for ty, mid in held[d]:
                    if not shutdown:
                        enqueue(ty, mid)
                        if racing:
                            race_ids.add(mid)
                held[d] = []
                if racing:
                    # posted after the held messages: the model queues it behind them
                    enqueue(racing[2], racing[0])
                    race_ids.add(racing[0])
        elif op[0] == "post_race_reg":
            _, s, d, ty = op
            dn = DESTS[d]
            nid[0] += 1
            mid = nid[0]
            posted_payload[mid] = (SENDERS[s], dn, ty)
            interleaved = dn not in registered and not shutdown
            if interleaved:
                armed_sub.append(lambda dn=dn: disc.register_computation(dn, "a1", publish=False))
                labels.append("registration-inside-post") if "registration-inside-post" not in labels else None
            with under_test():
                if ty is None:
                    msging.post_msg(SENDERS[s], dn, Message("probe", _content(case, mid)))
                else:
                    msging.post_msg(SENDERS[s], dn, Message("probe", _content(case, mid)), ty)
            del armed_sub[:]
            if shutdown:
                continue
            if interleaved:
                # the registration ran first: messages held so far are released, then this one is due as well
                registered.add(dn)
                for hty, hmid in held[dn]:
                    enqueue(hty, hmid)
                held[dn] = []
                enqueue(ty, mid)
                parked_ids.add(mid)
            elif dn in registered:
                enqueue(ty, mid)
            else:
                held[dn].append((ty, mid))
        elif op[0] == "next":
            if len(set(q[0] for q in queue)) >= 2:
                multi_fetch = True
            why = check_next("op %d" % i)
            if why:
                return why, multi_fetch and big_release, labels
        elif op[0] == "shutdown":
            with under_test():
                msging.shutdown()
            shutdown = True
            labels.append("shutdown")
    while True:
        if len(set(q[0] for q in queue)) >= 2:
            multi_fetch = True
        had = bool(queue)
        why = check_next("final drain")
        if why:
            return why, multi_fetch and big_release, labels
        if not had:
            break
    if big_release:
        labels.append("release>=2")
    return None, multi_fetch and big_release, labels


# --------------------------------------------------------------------------- (b) real threads


def run_threads(case):
    import sys
    labels = ["mode:threads", "senders:%d" % len(case["programs"])]
    log = []            # (dest, sender, id, thread name)
    lock = threading.Lock()
    with under_test():
        from pydcop.infrastructure.agents import Agent
        from pydcop.infrastructure.communication import InProcessCommunicationLayer
        from pydcop.infrastructure.computations import Message, MessagePassingComputation, register

        class Rec(MessagePassingComputation):
            @register("probe")
            def _on_probe(self, sender, msg, t):
                with lock:
                    log.append((self.name, sender, _mid(msg), threading.current_thread().name))

        agent = Agent("a1", InProcessCommunicationLayer(), daemon=True)
        comps = {d: Rec(d) for d in DESTS}
        for c in comps.values():
            c.start()       # pure handlers: running from the beginning, nothing buffered by the computation itself
        late = DESTS[case["late"]] if case["late"] is not None else None
        for d in DESTS:
            if d != late:
                agent.add_computation(comps[d])
        msging = agent._messaging
    if case["reg_delay_us"]:
        # widen (never create) the window between a registration becoming visible and the release of held messages
        orig_cb = msging._on_computation_registration

        def slow_cb(evt, computation, agt, orig_cb=orig_cb):
            time.sleep(case["reg_delay_us"] / 1e6)
            return orig_cb(evt, computation, agt)
        msging._on_computation_registration = slow_cb
    posted = []         # (id, sender, dest, type, phase) in posting order per sender
    nid = [0]
    idlock = threading.Lock()

    def post(sender, dest, ty, phase):
        with idlock:
            nid[0] += 1
            mid = nid[0]
            posted.append((mid, sender, dest, ty, phase))
        if ty is None:
            msging.post_msg(sender, dest, Message("probe", _content(case, mid)))
        else:
            msging.post_msg(sender, dest, Message("probe", _content(case, mid)), ty)

    old_switch = sys.getswitchinterval()
    errors = []
    try:
        with under_test():
            for d, ty in case["preload"]:
                dest = [x for x in DESTS if x != late][d % len([x for x in DESTS if x != late])]
                post("pre", dest, ty, "preload")
        sys.setswitchinterval(case["switch_us"] / 1e6)

        def sender_main(k, prog):
            try:
                for i, (d, ty, nap) in enumerate(prog):
                    if k == 0 and i == len(prog) - 1 and case.get("tail_pause_ms"):
                        # the agent goes idle (its polls time out after 50 ms) before the last message arrives
                        time.sleep(case["tail_pause_ms"] / 1000.0)
                    post("t%d" % k, DESTS[d], ty, "run")
                    if nap:
                        time.sleep(nap * 0.0002)
            except BaseException as e:  # raised by the code under test on a sender thread
                errors.append(("sender t%d" % k, type(e).__name__, str(e)[:200]))

        threads = [threading.Thread(target=sender_main, args=(k, prog), daemon=True)
                   for k, prog in enumerate(case["programs"])]
        with under_test():
            if case.get("periodic_ms"):
                agent.set_periodic_action(case["periodic_ms"] / 1000.0 * 1.25,
                                          lambda: time.sleep(case["periodic_ms"] / 1000.0))
            agent.start()
        for t in threads:
            t.start()
        if late is not None:
            time.sleep(case["late_after_ms"] / 1000.0)
            try:
                with under_test():
                    agent.add_computation(comps[late])
            except UnderTestError as e:
                errors.append(("late registration", e.exc_type, str(e)[:200]))
        for t in threads:
            t.join(20)
        with under_test():
            agent.clean_shutdown()
        for _ in range(case["after_shutdown_posts"]):
            with under_test():
                post("after", DESTS[0] if late != DESTS[0] else DESTS[1], 20, "after")
        agent.t.join(20)
        alive = agent.t.is_alive()
    finally:
        sys.setswitchinterval(old_switch)
        try:
            agent.stop()
        except Exception:
            pass
    held_late = late is not None and any(p[2] == late for p in posted)
    nontrivial = len(case["programs"]) >= 2 and held_late
    if late is not None:
        labels.append("late-registration")
    if errors:
        return "exception on %s: %s %s" % errors[0], nontrivial, labels
    if alive:
        return "the agent thread did not stop within 20 s of clean_shutdown()", nontrivial, labels
    handled = {}
    for dest, sender, mid, th in log:
        handled.setdefault(mid, []).append((dest, sender, th))
    by_id = {p[0]: p for p in posted}
    for mid, hs in handled.items():
        if len(hs) > 1:
            return "message #%d (%r) handled %d times" % (mid, by_id[mid][1:], len(hs)), nontrivial, labels
        dest, sender, th = hs[0]
        if (sender, dest) != by_id[mid][1:3]:
            return "message #%d posted as %r handled as %s->%s" % (mid, by_id[mid][1:4], sender, dest), nontrivial, labels
        if th != "thread_a1":
            return "message #%d handled on thread %s, not on the agent's thread" % (mid, th), nontrivial, labels
        if by_id[mid][4] == "after":
            return "message #%d posted after clean_shutdown() was handled" % mid, nontrivial, labels
    for mid, sender, dest, ty, phase in posted:
        if phase != "after" and mid not in handled:
            if dest == late and any(f[1] == late for f in list(msging._failed)):
                # still parked in Messaging's retry list although its destination is registered: tag for classify
                labels = labels + ["parked-forever-for-late-destination"]
            return "message #%d (%s -> %s, type %r, %s) posted before shutdown was never handled; %d of %d handled" % (
                mid, sender, dest, ty, phase, len(handled), len(posted)), nontrivial, labels
    order = [mid for _, _, mid, _ in log]
    pos = {mid: i for i, mid in enumerate(order)}
    groups = {}
    for mid, sender, dest, ty, phase in posted:
        if phase == "after":
            continue
        groups.setdefault((sender, dest, 20 if ty is None else ty), []).append(mid)
    for key, mids in groups.items():
        got = sorted(mids, key=lambda m: pos[m])
        if got != mids:
            if key[1] == late and key[0] != "pre":
                # the out-of-order messages target the late-registered computation: tag for the classifier
                labels = labels + ["fifo-break-on-late-destination"]
            return "messages of %r were posted in order %r but handled in order %r" % (key, mids, got), nontrivial, labels
    pre = [(20 if ty is None else ty, mid) for mid, sender, dest, ty, phase in posted if phase == "preload"]
    if pre:
        labels.append("preload")
        exp = [mid for _, mid in sorted(pre)]
        got = sorted((mid for _, mid in pre), key=lambda m: pos[m])
        if got != exp:
            return "pre-loaded messages (type, id) %r were handled in order %r, expected %r" % (pre, got, exp), \
                nontrivial, labels
    return None, nontrivial, labels


def run_case(case):
    try:
        why, nontrivial, labels = (run_seq if case["mode"] == "seq" else run_threads)(case)
    except UnderTestError as e:
        return Outcome(False, "raised %s at %s" % (e, e.frame), False, ["mode:" + case["mode"]],
                       info={"kind": "raised", "exc": e.exc_type, "frame": e.frame})
    if why:
        return Outcome(False, why, nontrivial, labels, info={"kind": case["mode"]})
    return Outcome(True, "", nontrivial, labels)


def classify(case, out):
    # A sender thread posting to a computation at the very moment another thread registers it: Messaging releases the
    # held messages from the registration callback, after the registration is already visible to post_msg.
    if case["mode"] == "threads" and case.get("late") is not None and "fifo-break-on-late-destination" in out.labels:
        return "C18-late-registration-overtake"
    if case["mode"] == "seq" and "order-break-at-racing-registration" in out.labels:
        return "C18-late-registration-overtake"
    # The registration completes between post_msg's failed lookup and the parking of the message: the one-shot
    # subscription is taken too late and the message stays in Messaging's retry list for ever.
    if case["mode"] == "threads" and case.get("late") is not None \
            and "parked-forever-for-late-destination" in out.labels:
        return "C18-late-registration-lost-message"
    if case["mode"] == "seq" and "parked-forever-after-registration-inside-post" in out.labels:
        return "C18-late-registration-lost-message"
    return None


def postcheck(cov, tier):
    need = ["mode:seq", "mode:threads", "shutdown", "release>=2", "late-registration", "preload", "senders:3"]
    missing = [l for l in need if not cov["labels"].get(l)]
    return ("classes never generated: %s" % missing) if missing else None
