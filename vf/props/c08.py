"""C08  Synchronous computations run in proper rounds under any async order."""
from hypothesis import strategies as st

from .. import gen, localsearch, oracles, simnet
from ..run import Outcome, UnderTestError, under_test

PROPERTY = "C08"
LEVEL = "exploration"
TECHNIQUE = ("property-based testing (Hypothesis): a probe computation using SynchronousComputationMixin with a "
             "generated per-round send plan, plus real maxsum/dsatuto computations, on SimNet under generated FIFO "
             "schedules; oracle = the wire log (who sent what in which round)")
LEVEL_TEXT = ("(i) A harness-defined computation class built on SynchronousComputationMixin runs on random graphs of "
              "1-6 nodes (any shape, degree 0 included); a generated table says, for every node and round, which "
              "subset of neighbours gets an algorithm message and whether it is sent through the return value of "
              "on_new_cycle or through post_msg. (ii) Real maxsum and dsatuto computations run on generated DCOPs. "
              "Both under generated start orders and per-channel-FIFO delivery orders. Oracle, from SimNet's log of "
              "every posted message: each node's on_new_cycle is called with cycle_id 0,1,2,... without gap; the "
              "messages handed over in round i are exactly the algorithm messages its neighbours posted with round "
              "id i (never a synchronisation message, never a duplicate, never one from another round); no handler "
              "raises. Sampling of graphs x plans x schedules.")
LEVEL_NOTE = ("Trusted: SimNet FIFO model (incl. the priority lane for messages re-injected at start). NCBB is not "
              "driven here: its own unit tests fail on algorithm logic on the pinned tree, so runs do not get past "
              "its first rounds; the mixin logic it shares is exercised by the probe.")
RULE = ("case = graph + send plan + schedule (probe) or DCOP + algorithm + schedule; non-trivial = >=3 nodes, some node "
        "of degree>=2, >=1 round in which a node messages a strict non-empty subset of its neighbours, and a "
        "non-canonical schedule; distinct by sha1(case)")
ASSUMPTIONS = ["per-channel FIFO delivery"]
BUDGET = {"quick": {"workers": 8, "examples": 200, "seconds": 45},
          "thorough": {"workers": 16, "examples": 3000, "seconds": 600}}

HORIZON = 5


@st.composite
def probe_cases(draw):
    n = draw(st.sampled_from([1, 2, 3, 3, 4, 4, 5, 6]))
    names = ["n%d" % i for i in range(n)]
    edges = []
    for i in range(n):
        for j in range(i + 1, n):
            if draw(st.sampled_from([0, 1, 1])):
                edges.append([names[i], names[j]])
    nb = {x: sorted([b if a == x else a for a, b in edges if x in (a, b)]) for x in names}
    plan = {}
    for x in names:
        rounds = []
        for r in range(HORIZON):
            sends = []
            for y in nb[x]:
                k = draw(st.sampled_from(["no", "no", "return", "post"]))
                if k != "no" and (r > 0 or k == "post"):
                    sends.append([y, k])
            rounds.append(sends)
        plan[x] = rounds
    # a third of the runs start one or two nodes paused (what an agent does with computations deployed during a
    # pause) and resume them after a generated number of scheduler steps: what they posted meanwhile - their own
    # messages and the mixin's synchronisation messages - must reach the neighbours at resume, once
    paused = {}
    if draw(st.integers(0, 2)) == 0:
        for x in draw(st.lists(st.sampled_from(names), min_size=1, max_size=2, unique=True)):
            paused[x] = draw(st.integers(0, 12))
    return {"target": "probe", "nodes": names, "edges": edges, "plan": plan, "schedule": draw(gen.schedules(150)),
            "paused": paused}


@st.composite
def algo_cases(draw):
    algo = draw(st.sampled_from(["maxsum", "dsatuto"]))
    desc = draw(gen.dcops(min_vars=1, max_vars=5, min_dom=1, max_dom=3, max_constraints=5, arities=(1, 2, 2, 3),
                          var_costs=(algo == "maxsum"), costs=gen.small_int_costs, objectives=("min",)))
    return {"target": algo, "dcop": desc, "schedule": draw(gen.schedules(150)), "seed": draw(st.integers(0, 1000)),
            "start_messages": draw(st.sampled_from(["leafs", "leafs_vars", "all"]))}


def case_strategy(tier):
    return st.one_of(probe_cases(), probe_cases(), algo_cases())


def check_rounds(net, calls, neighbours, min_rounds):
    """calls: node -> list of (cycle_id, {sender: msg}).  Compare with the wire log."""
    sent = {}  # (dst, round) -> {src: msg}
    for seq, step, src, dst, msg, _ in net.trace:
        if getattr(msg, "type", None) == "cycle_sync":
            continue
        key = (dst, msg.cycle_id)
        if src in sent.setdefault(key, {}):
            return "harness: two algorithm messages %s->%s in round %r" % (src, dst, msg.cycle_id)
        sent[key][src] = msg
    for node, cl in calls.items():
        ids = [cid for cid, _ in cl]
        if ids != list(range(len(ids))):
            return "%s: on_new_cycle called with cycle ids %r (gap or repetition)" % (node, ids)
        if neighbours[node] and len(ids) < min_rounds:
            return "%s: only %d rounds completed at the end of the run" % (node, len(ids))
        for cid, msgs in cl:
            exp = sent.get((node, cid), {})
            if set(msgs) != set(exp):
                return "%s round %d: handed messages from %r, neighbours sent algorithm messages: %r" % (
                    node, cid, sorted(msgs), sorted(exp))
            for s, m in msgs.items():
                if m is not exp[s]:
                    return "%s round %d: message from %s is not the one sent in that round (%r vs %r)" % (
                        node, cid, s, m, exp[s])
                if s not in neighbours[node]:
                    return "%s round %d: message from non-neighbour %s" % (node, cid, s)
    return None


def run_probe(case):
    names, plan = case["nodes"], case["plan"]
    nb = {x: sorted([b if a == x else a for a, b in case["edges"] if x in (a, b)]) for x in names}
    labels = ["probe", "n:%d" % len(names)]
    subset_round = any(0 < len(r) < len(nb[x]) for x in names for r in plan[x])
    nontrivial = len(names) >= 3 and any(len(v) >= 2 for v in nb.values()) and subset_round and any(case["schedule"])
    with under_test():
        from pydcop.infrastructure.computations import (Message, MessagePassingComputation,
                                                        SynchronousComputationMixin, register)

    calls = {x: [] for x in names}

    class Probe(SynchronousComputationMixin, MessagePassingComputation):
        def __init__(self, name):
            super().__init__(name)

        @property
        def neighbors(self):
            return list(nb[self.name])

        @register("probe")
        def _on_probe(self, sender, msg, t):
            pass

        def _sends(self, rnd):
            return plan[self.name][rnd] if rnd < len(plan[self.name]) else []

        def on_start(self):
            for target, how in self._sends(0):
                self.post_msg(target, Message("probe", [self.name, 0]))

        def on_new_cycle(self, messages, cycle_id):
            calls[self.name].append((cycle_id, {s: m for s, (m, t) in messages.items()}))
            out = []
            for target, how in self._sends(cycle_id + 1):
                m = Message("probe", [self.name, cycle_id + 1])
                if how == "post":
                    self.post_msg(target, m)
                else:
                    out.append((target, m))
            return out or None

    net = simnet.SimNet(case["schedule"], max_steps=100000)
    net.trace = []
    with under_test():
        comps = {x: Probe(x) for x in names}
    for c in comps.values():
        net.add(c)
    active = [c for x, c in comps.items() if nb[x]]
    to_resume = dict(case.get("paused") or {})
    if to_resume:
        labels.append("paused-start")
        with under_test():
            for x in to_resume:
                comps[x].pause(True)

    def after(n, act):
        for x in [x for x, k in to_resume.items() if x in n.started and n.step >= k]:
            del to_resume[x]
            n._inside = x       # what it re-injects goes to its own priority lane, as on its agent's queue
            try:
                with under_test():
                    comps[x].pause(False)
            finally:
                n._inside = None
        if all(c.cycle_count >= HORIZON + 2 for c in active):
            n.halt = True

    net.after_step = after
    net.run()
    while to_resume and not net.halt and not net.errors and not net.bound_hit:
        # everything else is waiting for a paused node: resume it now (a pause ends at some point)
        x = sorted(to_resume)[0]
        del to_resume[x]
        net._inside = x
        try:
            with under_test():
                comps[x].pause(False)
        finally:
            net._inside = None
        net.run()
    labels.append(net.schedule_label())
    if net.errors:
        return Outcome(False, "probe: handler raised %r" % (net.errors[0],), nontrivial, labels, info={"phase": "raise"})
    if net.bound_hit:
        return Outcome(True, "", False, labels + ["bound-hit"], info={"inconclusive": True})
    if active and not net.halt:
        return Outcome(False, "probe: run became quiescent before every node completed %d rounds (cycle counts %r)" % (
            HORIZON + 2, {x: c.cycle_count for x, c in comps.items()}), nontrivial, labels, info={"phase": "stuck"})
    why = check_rounds(net, calls, nb, HORIZON + 2)
    if why:
        return Outcome(False, "probe: " + why, nontrivial, labels, info={"phase": "rounds"})
    # payloads carry (sender, round): the round id stamped by the mixin must be the plan's round
    for x, cl in calls.items():
        for cid, msgs in cl:
            for s, m in msgs.items():
                if list(m.content) != [s, cid]:
                    return Outcome(False, "probe: %s round %d got payload %r from %s" % (x, cid, m.content, s),
                                   nontrivial, labels, info={"phase": "payload"})
    return Outcome(True, "", nontrivial, labels, info={"steps": net.step})


def run_algo(case):
    desc, algo = case["dcop"], case["target"]
    labels = ["algo:" + algo]
    calls = {}
    rounds = 6

    def prep(r):
        r.net.trace = []
        for name, c in r.comps.items():
            calls[name] = []
            orig = c.on_new_cycle

            def wrapped(messages, cycle_id, _o=orig, _n=name):
                calls[_n].append((cycle_id, {s: m for s, (m, t) in messages.items()}))
                return _o(messages, cycle_id)

            c.on_new_cycle = wrapped
        active = [c for c in r.comps.values() if c.neighbors]

        def after(net, act):
            if all(c.cycle_count >= rounds for c in active):
                net.halt = True

        r.net.after_step = after

    params = {"damping": 0.0, "noise": 0.0, "start_messages": case.get("start_messages", "leafs")} \
        if algo == "maxsum" else {}
    r = localsearch.run_algo(desc, algo, params, case["schedule"], case["seed"], max_steps=200000, before_run=prep)
    net = r.net
    nb = {n: list(c.neighbors) for n, c in r.comps.items()}
    nontrivial = len(r.comps) >= 3 and any(len(v) >= 2 for v in nb.values()) and any(case["schedule"])
    labels.append(net.schedule_label())
    if net.errors:
        return Outcome(False, "%s: handler raised %r" % (algo, net.errors[0]), nontrivial, labels, info={"phase": "raise"})
    if net.bound_hit:
        return Outcome(True, "", False, labels + ["bound-hit"], info={"inconclusive": True})
    if any(nb.values()) and not net.halt:
        return Outcome(False, "%s: quiescent before %d rounds (cycle counts %r)" % (
            algo, rounds, {n: c.cycle_count for n, c in r.comps.items()}), nontrivial, labels, info={"phase": "stuck"})
    why = check_rounds(net, calls, nb, rounds)
    if why:
        return Outcome(False, "%s: %s" % (algo, why), nontrivial, labels, info={"phase": "rounds"})
    return Outcome(True, "", nontrivial, labels, info={"steps": net.step})


def run_case(case):
    try:
        if case["target"] == "probe":
            return run_probe(case)
        return run_algo(case)
    except UnderTestError as e:
        return Outcome(False, "raised %s at %s" % (e, e.frame), True, [case["target"]], info={"exc": e.exc_type})
