"""C11  Relations evaluate and slice consistently with their definition."""
import functools
import os
import itertools

from hypothesis import strategies as st

from .. import build, gen, oracles
from ..run import Outcome, UnderTestError, under_test

PROPERTY = "C11"
LEVEL = "exploration"
TECHNIQUE = "property-based testing (Hypothesis) against a reference evaluator, repeated under 6 PYTHONHASHSEED values"
LEVEL_TEXT = ("Generated relations of every kind (matrix, constraint_from_str, NAryFunctionRelation over "
              "ExpressionFunction / python function / functools.partial, unary function, unary boolean, zero-ary, "
              "neutral, conditional) over <=4 variables with the variable list in an arbitrary permutation, a full "
              "assignment and a 1-3 step slicing sequence. Oracle: value computed from the case description "
              "(table index arithmetic / eval of the expression in a dict namespace). The same generated cases are "
              "run in interpreters with PYTHONHASHSEED 0,1,2,3,7,11; agreement with the seed-independent reference "
              "implies identical values across seeds. Relations built with "
              "constraint_from_external_definition (helper function in a generated python file) are included, with a "
              "second relation using a same-named helper from another file created before, after or between. Sampling, "
              "not proof.")
LEVEL_NOTE = ("Trusted: Python eval for the reference, Hypothesis. Python-function relations are checked against "
              "the documented positional binding to the given variable list; expression-based relations against "
              "binding by name. ConditionalRelation(return_neutral=False) documents a 0-ary result on a false "
              "condition, so the 'exactly the remaining variables' clause is asserted for it only when the "
              "condition holds.")
RULE = ("case = relation description (10 kinds) + variable-list permutation + full assignment + slicing steps; "
        "oracle = reference value from the description; non-trivial = arity>=2 with asymmetric definition (by "
        "construction) and at least one slicing step; distinct by sha1(case); every case runs under each hash seed")
ASSUMPTIONS = ["expression kinds use int domains; matrix kinds also str domains",
               "UnaryFunctionRelation is built from python callables (what every caller in the repository does)"]
HASHSEEDS = [0, 1, 2, 3, 7, 11]
BUDGET = {"quick": {"workers": 6, "examples": 1500, "seconds": 40},
          "thorough": {"workers": 12, "examples": 18000, "seconds": 480}}

KINDS = ["matrix", "expr_str", "nary_expr", "nary_expr_kw", "pyfunc", "partial", "unary_func",
         "unary_bool", "zeroary", "neutral", "conditional", "external"]


@st.composite
def simple_rel(draw, names, doms, kinds, min_arity=0, name="r"):
    kind = draw(st.sampled_from(kinds))
    intnames = [n for n in names if all(isinstance(x, int) for x in doms[n])]
    if kind != "matrix" and kind not in ("neutral", "zeroary", "unary_bool") and not intnames:
        kind = "matrix"
    pool = names if kind in ("matrix", "neutral", "unary_bool") else intnames
    if kind in ("unary_func", "unary_bool"):
        a = 1
    elif kind == "zeroary":
        a = 0
    else:
        lo = max(min_arity, 1 if kind != "matrix" and kind != "neutral" else min_arity)
        a = draw(st.sampled_from([x for x in [0, 1, 2, 2, 2, 3, 3, 3, 4, 4] if lo <= x <= len(pool)] or [min(len(pool), lo)]))
    scope = draw(st.lists(st.sampled_from(pool), min_size=a, max_size=a, unique=True)) if a else []
    r = {"kind": kind, "scope": scope, "name": name}
    if kind == "matrix":
        r["table"] = gen.nested_table(draw, [len(doms[s]) for s in scope], gen.mixed_costs)
    elif kind in ("expr_str", "nary_expr", "nary_expr_kw"):
        r["expr"] = gen.int_expression(draw, scope)
    elif kind == "external":
        # constraint_from_external_definition: the expression calls a helper defined in a python file; another
        # relation using a helper of the same name from ANOTHER file is created before this one is evaluated
        r["expr"] = gen.int_expression(draw, scope)
        r["helper"] = [draw(st.integers(-3, 3)), draw(st.integers(-9, 9))]
        r["decoy"] = [draw(st.integers(4, 6)), draw(st.integers(10, 20))]
        r["decoy_when"] = draw(st.sampled_from(["never", "before", "after", "after", "after-sliced"]))
    elif kind in ("pyfunc", "partial"):
        args = ["p%d" % i for i in range(len(scope))]
        if len(scope) >= 2 and draw(st.integers(0, 2)) == 0:
            # parameters named like the variables, in another order: the function is still bound by position
            args = list(draw(st.permutations(scope)))
        r["args"] = args
        r["expr"] = gen.int_expression(draw, args)
        if kind == "partial":
            r["extra"] = draw(st.integers(-5, 5))
    elif kind == "unary_func":
        r["expr"] = gen.int_expression(draw, ["x_"])
    elif kind == "zeroary":
        r["value"] = draw(gen.mixed_costs)
    return r


@st.composite
def cases(draw):
    n = draw(st.sampled_from([1, 2, 3, 3, 4, 4, 4]))
    names = draw(st.lists(st.sampled_from(gen.NAME_POOL), min_size=n, max_size=n, unique=True))
    domains, variables, doms = {}, [], {}
    for i, nm in enumerate(names):
        pool = gen.INT_DOMS if draw(st.integers(0, 5)) else gen.STR_DOMS
        domains["d%d" % i] = list(draw(st.sampled_from(pool)))
        doms[nm] = domains["d%d" % i]
        variables.append({"name": nm, "domain": "d%d" % i})
    kind = draw(st.sampled_from(KINDS + ["nary_expr", "pyfunc", "conditional", "conditional", "matrix", "expr_str", "partial"]))
    if kind == "conditional":
        ck = draw(st.sampled_from(["cond_expr", "unary_bool", "matrix"]))
        intnames = [x for x in names if all(isinstance(v, int) for v in doms[x])]
        if ck == "cond_expr" and intnames:
            a = draw(st.integers(1, min(2, len(intnames))))
            cs = draw(st.lists(st.sampled_from(intnames), min_size=a, max_size=a, unique=True))
            cond = {"kind": "expr_str", "scope": cs, "name": "cond",
                    "expr": ("%s > %d" % (cs[0], draw(st.integers(-1, 2)))) if a == 1 else
                    "%s %s %s" % (cs[0], draw(st.sampled_from(["<", "==", ">=", "!="])), cs[1])}
        elif ck == "unary_bool":
            cond = {"kind": "unary_bool", "scope": [draw(st.sampled_from(names))], "name": "cond"}
        else:
            cond = draw(simple_rel(names, doms, ["matrix"], min_arity=1, name="cond"))
            cond["table"] = gen.nested_table(draw, [len(doms[s]) for s in cond["scope"]], st.integers(0, 1))
        cons = draw(simple_rel(names, doms, ["matrix", "expr_str", "matrix"], min_arity=0, name="cons"))
        rel = {"kind": "conditional", "cond": cond, "cons": cons, "name": "r",
               "return_neutral": draw(st.booleans())}
        rel["scope"] = sorted(set(cond["scope"]) | set(cons["scope"]))
    else:
        rel = draw(simple_rel(names, doms, [kind]))
    scope = rel["scope"]
    assignment = {s: draw(st.sampled_from(doms[s])) for s in scope}
    # slicing steps: disjoint subsets of the scope, in a generated order
    order = draw(st.permutations(scope)) if scope else []
    nsteps = draw(st.sampled_from([0, 1, 2, 2, 3, 3]))
    steps, rest = [], list(order)
    for _ in range(nsteps):
        if not rest:
            break
        k = draw(st.sampled_from([1, 1, 2, 3, 4]))
        steps.append(rest[:k])
        rest = rest[k:]
    case = {"domains": domains, "variables": variables, "rel": rel, "assignment": assignment, "steps": steps}
    if steps and draw(st.booleans()):
        # the same relation is evaluated and sliced a second time, in the same process, on another assignment:
        # nothing may be remembered from the first pass
        case["assignment2"] = {s: draw(st.sampled_from(doms[s])) for s in scope}
    return case


def case_strategy(tier):
    return cases()


# ------------------------------------------------------------------ reference


def ref_value(desc, rel, a):
    k = rel["kind"]
    if k == "matrix":
        return oracles.constraint_value(desc, rel, a)
    if k in ("expr_str", "nary_expr", "nary_expr_kw"):
        return oracles.ref_eval(rel["expr"], {n: a[n] for n in rel["scope"]})
    if k == "external":
        return rel["helper"][0] * oracles.ref_eval(rel["expr"], {n: a[n] for n in rel["scope"]}) + rel["helper"][1]
    if k in ("pyfunc", "partial"):
        env = {p: a[n] for p, n in zip(rel["args"], rel["scope"])}
        return oracles.ref_eval(rel["expr"], env) + (rel.get("extra", 0) if k == "partial" else 0)
    if k == "unary_func":
        return oracles.ref_eval(rel["expr"], {"x_": a[rel["scope"][0]]})
    if k == "unary_bool":
        return True if a[rel["scope"][0]] else False
    if k == "zeroary":
        return rel["value"]
    if k == "neutral":
        return 0
    if k == "conditional":
        if ref_value(desc, rel["cond"], a):
            return ref_value(desc, rel["cons"], a)
        return 0
    raise ValueError(k)


def build_rel(desc, rel, variables):
    from pydcop.dcop import relations as R
    from pydcop.utils.expressionfunction import ExpressionFunction
    k = rel["kind"]
    scope = [variables[n] for n in rel["scope"]]
    if k == "matrix":
        return R.NAryMatrixRelation(scope, build.np_table(rel), name=rel["name"])
    if k == "expr_str":
        # all variables offered in the order of the description (a permutation of the scope order)
        return R.constraint_from_str(rel["name"], rel["expr"], list(variables.values()))
    if k == "external":
        def source(tag, km):
            p = os.path.join(os.getcwd(), "c11_%d_%s.py" % (os.getpid(), tag))
            with open(p, "w", encoding="utf-8") as f:
                f.write("def helper(x):\n    return %d * x + %d\n" % tuple(km))
            return p

        def decoy():
            d = R.constraint_from_external_definition("decoy", source("decoy", rel["decoy"]),
                                                      "source.helper(%s)" % rel["scope"][0], list(variables.values()))
            d.slice({rel["scope"][0]: desc["domains"][oracles.var_desc(desc, rel["scope"][0])["domain"]][0]})
        when = rel.get("decoy_when", "never")
        if when == "before":
            decoy()
        r = R.constraint_from_external_definition(rel["name"], source("main", rel["helper"]),
                                                  "source.helper(%s)" % rel["expr"], list(variables.values()))
        if when == "after-sliced":
            v0 = rel["scope"][0]
            r.slice({v0: desc["domains"][oracles.var_desc(desc, v0)["domain"]][0]})
        if when in ("after", "after-sliced"):
            decoy()
        return r
    if k == "nary_expr":
        return R.NAryFunctionRelation(ExpressionFunction(rel["expr"]), scope, name=rel["name"])
    if k == "nary_expr_kw":
        return R.NAryFunctionRelation(ExpressionFunction(rel["expr"]), scope, name=rel["name"], f_kwargs=True)
    if k == "pyfunc":
        f = eval("lambda %s: %s" % (", ".join(rel["args"]), rel["expr"]), {"abs": abs, "min": min, "max": max})
        return R.NAryFunctionRelation(f, scope, name=rel["name"])
    if k == "partial":
        f = eval("lambda %s: %s + k_" % (", ".join(rel["args"] + ["k_"]), rel["expr"]),
                 {"abs": abs, "min": min, "max": max})
        return R.NAryFunctionRelation(functools.partial(f, k_=rel["extra"]), scope, name=rel["name"])
    if k == "unary_func":
        f = eval("lambda x_: " + rel["expr"], {"abs": abs, "min": min, "max": max})
        return R.UnaryFunctionRelation(rel["name"], scope[0], f)
    if k == "unary_bool":
        return R.UnaryBooleanRelation(rel["name"], scope[0])
    if k == "zeroary":
        return R.ZeroAryRelation(rel["name"], rel["value"])
    if k == "neutral":
        return R.NeutralRelation(scope, name=rel["name"])
    if k == "conditional":
        return R.ConditionalRelation(build_rel(desc, rel["cond"], variables),
                                     build_rel(desc, rel["cons"], variables), name=rel["name"],
                                     return_neutral=rel["return_neutral"])
    raise ValueError(k)


def _plain(x):
    return x.item() if hasattr(x, "item") else x


def _same(got, exp):
    got = _plain(got)
    if isinstance(exp, bool) or isinstance(got, bool):
        return bool(got) == bool(exp) and (isinstance(got, (bool, int, float)))
    return oracles.close(got, exp, 1e-12)


def _eval_all_forms(r, a_full, what):
    """value of r on the assignment (restricted to r's dimensions) through the three call forms."""
    with under_test():
        dims = [v.name for v in r.dimensions]
    sub = {n: a_full[n] for n in dims}
    out = []
    with under_test():
        out.append(("keyword", r(**sub) if sub else r()))
        out.append(("positional", r(*[sub[n] for n in dims])))
        out.append(("dict", r.get_value_for_assignment(dict(sub))))
    return dims, out


def run_case(case):
    out = _run_one(case)
    if out.ok and not out.discard and case.get("assignment2") and case["assignment2"] != case["assignment"]:
        out2 = _run_one(dict(case, assignment=case["assignment2"]))
        out2.labels.append("second-pass")
        if not out2.ok:
            out2.why = "[second pass over the same relation in this process, after %r] %s" % (case["assignment"], out2.why)
        return out2
    return out


def _run_one(case):
    desc, rel, a = case, case["rel"], case["assignment"]
    kind = rel["kind"]
    labels = ["kind:" + kind, "arity:%d" % len(rel["scope"]), "steps:%d" % len(case["steps"])]
    nontrivial = len(rel["scope"]) >= 2 and len(case["steps"]) >= 1
    try:
        with under_test():
            domains = build.build_domains(desc)
            # variables dict in description order: a permutation relative to the scope
            variables = {v["name"]: build.build_variable(desc, v, domains) for v in desc["variables"]}
            r = build_rel(desc, rel, variables)
        exp = ref_value(desc, rel, a)
        dims, vals = _eval_all_forms(r, a, "full")
        if sorted(dims) != sorted(rel["scope"]):
            return Outcome(False, "%s: dimensions %r != scope %r" % (kind, dims, rel["scope"]), nontrivial, labels)
        with under_test():
            if r.arity != len(rel["scope"]):
                return Outcome(False, "%s: arity %r != %d" % (kind, r.arity, len(rel["scope"])), nontrivial, labels)
        for form, got in vals:
            if not _same(got, exp):
                return Outcome(False, "%s: %s call gives %r, definition gives %r for %r (dimensions %r)" % (
                    kind, form, _plain(got), exp, a, dims), nontrivial, labels, info={"phase": "eval", "form": form})
        # ---- slicing: several steps, and the same partial assignment in one step
        fixed = {}
        cur = r
        seqs = []
        for step in case["steps"]:
            fixed_step = {n: a[n] for n in step}
            fixed.update(fixed_step)
            with under_test():
                cur = cur.slice(dict(fixed_step))
            seqs.append(("step-by-step", cur, dict(fixed)))
            if (kind == "conditional" and not rel["return_neutral"]
                    and all(n in fixed for n in rel["cond"]["scope"])
                    and not ref_value(desc, rel["cond"], dict(a, **fixed))):
                break  # documented: a 0-ary relation is returned, nothing left to slice
        if len(case["steps"]) >= 2:
            with under_test():
                one = r.slice(dict(fixed))
            seqs.append(("one-step", one, dict(fixed)))
        for how, s, fx in seqs:
            remaining = [n for n in rel["scope"] if n not in fx]
            with under_test():
                sd = [v.name for v in s.dimensions]
            zero_by_design = False
            if kind == "conditional" and not rel["return_neutral"]:
                cond_fixed = all(n in fx for n in rel["cond"]["scope"])
                if cond_fixed and not ref_value(desc, rel["cond"], dict(a, **fx)):
                    zero_by_design = True
                    labels.append("cond-false-zeroary")
            if not zero_by_design:
                if sorted(sd) != sorted(remaining) or len(sd) != len(set(sd)):
                    return Outcome(False, "%s: %s slice on %r has dimensions %r, expected %r" % (
                        kind, how, fx, sd, remaining), nontrivial, labels, info={"phase": "slice-scope"})
                with under_test():
                    if s.arity != len(remaining):
                        return Outcome(False, "%s: %s slice arity %r != %d" % (kind, how, s.arity, len(remaining)),
                                       nontrivial, labels, info={"phase": "slice-scope"})
            for comp in oracles.all_assignments(desc, remaining):
                full = dict(fx, **comp)
                exp = ref_value(desc, rel, full)
                if zero_by_design:
                    with under_test():
                        got = s()
                    if not _same(got, exp):
                        return Outcome(False, "%s: %s slice %r gives %r, expected %r" % (kind, how, fx, got, exp),
                                       nontrivial, labels, info={"phase": "slice-value"})
                    continue
                _, vals = _eval_all_forms(s, full, how)
                for form, got in vals:
                    if not _same(got, exp):
                        return Outcome(False, "%s: %s slice on %r, %s call gives %r, definition gives %r at %r" % (
                            kind, how, fx, form, _plain(got), exp, comp), nontrivial, labels,
                            info={"phase": "slice-value", "form": form})
    except UnderTestError as e:
        return Outcome(False, "%s raised %s at %s" % (kind, e, e.frame), nontrivial, labels,
                       info={"exc": e.exc_type, "frame": e.frame})
    return Outcome(True, "", nontrivial, labels)
