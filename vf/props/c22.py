"""C22  Orchestrated solve terminates and reports a true optimal result."""
import sys
import threading
import time

from hypothesis import strategies as st

from .. import build, gen, oracles
from ..run import Outcome, UnderTestError, under_test

PROPERTY = "C22"
LEVEL = "exploration"
TECHNIQUE = ("property-based testing (Hypothesis): generated DCOPs x agent sets x distributions solved by DPOP through "
             "the real Orchestrator and thread-mode OrchestratedAgents under generated scheduling perturbation; "
             "oracle = brute-force optimum + the DCOP's own cost accounting + termination-by-completion predicate")
LEVEL_TEXT = ("Generated DCOPs (1-5 variables, domains of 1-3 values, 0-6 matrix/expression constraints of arity 1-3, "
              "variable costs, min and max) with at least as many agents as variables and ample capacity, distributed "
              "by oneagent, adhoc or gh_cgdp (harness footprint/load functions, DPOP defining none) or by a "
              "generated valid mapping; over-constrained instances (hard entries equal to the infinity constant) "
              "included; run by run_local_thread_dcop + deploy_computations + run(timeout=12) - the calls `pydcop "
              "solve` and infrastructure.run.solve make - on a harness thread with a 24 s deadline, with real agent "
              "threads, one of which may be started 20-300 ms late; perturbation = generated sys.setswitchinterval and "
              "generated micro-sleeps injected into Messaging.post_msg. Oracle: the API sequence returns; "
              "the orchestrator's status is not TIMEOUT and every computation reported end_of_computation before the "
              "agents were stopped; end_metrics()['assignment'] covers every variable with a value of its domain; "
              "the independent cost of that assignment equals the brute-force optimum; the reported cost and "
              "violation equal both dcop.solution_cost(assignment, infinity) and the reference accounting. "
              "Thread interleavings are perturbed, not enumerated.")
LEVEL_NOTE = ("Trusted: the brute-force oracle, the reference cost accounting. A run costs about 1.5 s of wall clock "
              "(fixed sleeps in agent start/stop), which bounds the number of cases; the same DPOP computations are "
              "explored far more densely, with owned schedules, by C01.")
RULE = ("case = DCOP + agents + distribution + perturbation; non-trivial = >=3 variables, >=2 constraints of arity >=2 "
        "and >=2 agents hosting computations; distinct by sha1(case)")
ASSUMPTIONS = ["thread mode (all agents in this process)", "costs are small integers or dyadic floats: the optimum is "
               "exactly representable and far below the infinity constant 10000"]
BUDGET = {"quick": {"workers": 8, "examples": 25, "seconds": 45, "shrink_seconds": 60},
          "thorough": {"workers": 16, "examples": 400, "seconds": 1200, "shrink_seconds": 300}}

INFINITY = 10000


@st.composite
def cases(draw):
    nv = draw(st.sampled_from([1, 2, 3, 3, 4, 4, 5]))
    # Variable names starting with 'B' or '_' are left to the pinned case of the listed finding
    # C22-technical-looking-variable-name (the runtime takes them for technical computations and the run never
    # starts): each such run would only burn the 40 s deadline.
    dcop = draw(gen.dcops(min_vars=nv, max_vars=nv, max_dom=3, max_constraints=6, arities=(1, 2, 3),
                          kinds=("matrix", "expr"), var_costs=True, min_constraints=min(nv - 1, 3)).filter(
        lambda d: not any(v["name"].startswith(("B", "_")) for v in d["variables"])))
    if dcop["objective"] == "min" and draw(st.integers(0, 3)) == 0:
        # hard entries (cost == the infinity constant of the run) in the extensional constraints: possibly an
        # over-constrained problem, whose optimum still carries violations that must be counted as such

        def plant(t):
            if isinstance(t, list):
                return [plant(x) for x in t]
            return INFINITY if draw(st.sampled_from([0, 0, 1])) else t
        for c in dcop["constraints"]:
            if c["kind"] == "matrix":
                c["table"] = plant(c["table"])
    na = nv + draw(st.integers(0, 2))
    return {"dcop": dcop, "n_agents": na,
            "distribution": draw(st.sampled_from(["oneagent", "adhoc", "gh_cgdp", "mapping"])),
            "mapping": draw(st.lists(st.integers(0, na - 1), min_size=nv, max_size=nv)),
            "hosting": draw(st.lists(st.sampled_from([1, 2, 5, 10]), min_size=na, max_size=na)),
            # every computation has footprint 1: a capacity of 2 or 3 spreads the computations over several agents
            "capacity": draw(st.sampled_from([2, 2, 3, 1000])),
            # one agent's thread is started late (agents of a real deployment do not come up at the same instant):
            # [agent index, delay in ms] or None
            "late_start": draw(st.one_of(st.none(), st.none(), st.tuples(st.integers(0, na - 1),
                                                                        st.sampled_from([20, 100, 300])))),
            "switch_us": draw(st.sampled_from([5, 50, 500, 5000])),
            "naps": draw(st.lists(st.sampled_from([0, 0, 0, 0, 1, 2, 5]), min_size=8, max_size=8)),
            "rng_seed": draw(st.integers(0, 10 ** 6))}


def case_strategy(tier):
    return cases()


_patch_state = {"installed": False, "naps": None, "count": 0, "slow": None}


class _SlowLink:
    """Latency on the link towards one agent: management messages posted by OTHER agents to its management
    computation are handed to the real post_msg `ms` milliseconds later, in posting order, from a courier thread
    (post_msg is what communication layers call from their own threads)."""

    def __init__(self, agent, ms):
        import queue
        self.dest = "_mgt_" + agent
        self.agent, self.ms = agent, ms
        self.q = queue.Queue()
        self.delayed = 0
        self.thread = threading.Thread(target=self._run, daemon=True, name="vf-slow-link")
        self.thread.start()

    def _run(self):
        while True:
            item = self.q.get()
            if item is None:
                return
            due, call = item
            time.sleep(max(0.0, due - time.time()))
            try:
                call()
            except Exception:  # the run may be over: the destination is gone
                pass

    def take(self, orig, messaging, a, k):
        dest = a[1] if len(a) > 1 else k.get("dest_computation")
        if dest != self.dest or getattr(messaging, "_local_agent", None) == self.agent:
            return False
        self.delayed += 1
        self.q.put((time.time() + self.ms / 1000.0, lambda: orig(messaging, *a, **k)))
        return True

    def close(self):
        self.q.put(None)


def _install_perturbation():
    """Class-level wrapper around Messaging.post_msg: sleeps naps[k % 8] * 100 us before every k-th post while armed;
    with a slow link armed, management messages towards one agent travel late (see _SlowLink)."""
    from pydcop.infrastructure.communication import Messaging
    if _patch_state["installed"]:
        return
    orig = Messaging.post_msg

    def post_msg(self, *a, **k):
        naps = _patch_state["naps"]
        if naps:
            _patch_state["count"] += 1
            n = naps[_patch_state["count"] % len(naps)]
            if n:
                time.sleep(n * 1e-4)
        slow = _patch_state["slow"]
        if slow is not None and slow.take(orig, self, a, k):
            return None
        return orig(self, *a, **k)

    Messaging.post_msg = post_msg
    _patch_state["installed"] = True


def run_case(case):
    import random
    desc = case["dcop"]
    labels = gen.dcop_labels(desc) + ["dist:" + case["distribution"]]
    names = [v["name"] for v in desc["variables"]]
    nontrivial = False
    orchestrator = None
    old_switch = sys.getswitchinterval()
    before = set(threading.enumerate())
    try:
        with under_test():
            import numpy
            from importlib import import_module
            from pydcop.algorithms import AlgorithmDef
            from pydcop.computations_graph import pseudotree
            from pydcop.dcop.objects import AgentDef
            from pydcop.distribution.objects import Distribution
            from pydcop.infrastructure import orchestrator as orch_mod
            from pydcop.infrastructure.run import run_local_thread_dcop
            random.seed(case["rng_seed"])
            numpy.random.seed(case["rng_seed"] % (2 ** 32))
            dcop, _, _ = build.build_dcop(desc)
            agents = [AgentDef("a%02d" % i, capacity=case.get("capacity", 1000), default_hosting_cost=case["hosting"][i])
                      for i in range(case["n_agents"])]
            dcop.add_agents(agents)
            cg = pseudotree.build_computation_graph(dcop)
            comp_names = sorted(n.name for n in cg.nodes)
            if case["distribution"] == "mapping":
                m = {}
                for c, ai in zip(comp_names, case["mapping"]):
                    m.setdefault(agents[ai].name, []).append(c)
                distribution = Distribution(m)
            else:
                dm = import_module("pydcop.distribution." + case["distribution"])
                distribution = dm.distribute(cg, list(dcop.agents.values()), hints=None,
                                             computation_memory=lambda node: 1,
                                             communication_load=lambda node, target: 1)
            hosting_agents = [a for a in distribution.agents if distribution.computations_hosted(a)]
            algo = AlgorithmDef.build_with_default_param("dpop", {}, mode=dcop.objective)
            _install_perturbation()
        nontrivial = len(names) >= 3 and sum(1 for c in desc["constraints"] if len(c["scope"]) >= 2) >= 2 \
            and len(hosting_agents) >= 2
        labels.append("agents-used:%d" % min(len(hosting_agents), 4))
        ended = []
        end_after_stop = []
        stop_requested = [False]
        orig_end = orch_mod.AgentsMgt._on_computation_end_msg
        orig_stop = orch_mod.AgentsMgt._orchestrator_stop_agents

        def on_end(self, sender, msg, t):
            ended.append(msg.computation)
            return orig_end(self, sender, msg, t)

        def on_stop(self, *a):
            stop_requested[0] = True
            return orig_stop(self, *a)

        orch_mod.AgentsMgt._on_computation_end_msg = on_end
        orch_mod.AgentsMgt._orchestrator_stop_agents = on_stop
        from pydcop.infrastructure import orchestratedagents as oa_mod
        orig_agent_start = oa_mod.OrchestratedAgent.start
        late = case.get("late_start")
        late_timers = []

        def agent_start(self, *a, **k):
            if late and self.name == "a%02d" % late[0]:
                t = threading.Timer(late[1] / 1000.0, lambda: orig_agent_start(self, *a, **k))
                t.daemon = True
                late_timers.append((t, self))
                t.start()
            else:
                orig_agent_start(self, *a, **k)
        oa_mod.OrchestratedAgent.start = agent_start
        if late:
            labels.append("late-agent:" + ("idle" if agents[late[0]].name not in hosting_agents else "hosting"))
        fatal = []
        try:
            sys.setswitchinterval(case["switch_us"] / 1e6)
            _patch_state["naps"] = list(case["naps"])
            holder, phase, errs = {}, ["start"], []

            def drive():
                # the calls `pydcop solve` makes, on their own thread: run() first waits - without any time limit -
                # until the deployment is complete
                try:
                    with under_test():
                        o = run_local_thread_dcop(algo, cg, distribution, dcop, INFINITY)
                        holder["o"] = o
                        o.set_error_handler(lambda e: fatal.append(repr(e)[:300]))
                        phase[0] = "deploy"
                        o.deploy_computations()
                        phase[0] = "run"
                        o.run(timeout=12)
                        holder["status"] = o.status
                        holder["ended"] = list(ended)
                        holder["metrics"] = o.end_metrics()
                        phase[0] = "returned"
                except UnderTestError as e:
                    errs.append(e)
            th = threading.Thread(target=drive, daemon=True, name="api-caller")
            th.start()
            th.join(24)
            orchestrator = holder.get("o")
            if errs:
                raise errs[0]
            if th.is_alive():
                technical = sorted(n for n in names if n.startswith(("B", "_")))
                return Outcome(False, "the run never returned (stuck in its %s phase for 24 s, long after the 12 s "
                                      "timeout should have ended it); variables %r, of which %r have a name the runtime "
                                      "treats as technical" % (phase[0], names, technical), nontrivial, labels,
                               info={"kind": "never-returned", "phase": phase[0], "technical_names": technical})
            status, ended_at_return, metrics = holder["status"], holder["ended"], holder["metrics"]
        finally:
            _patch_state["naps"] = None
            sys.setswitchinterval(old_switch)
            orch_mod.AgentsMgt._on_computation_end_msg = orig_end
            orch_mod.AgentsMgt._orchestrator_stop_agents = orig_stop
            oa_mod.OrchestratedAgent.start = orig_agent_start
            for t, obj in late_timers:
                t.cancel()
                try:
                    obj.stop()
                except Exception:
                    pass
        ctx ="variables %r, constraints %r, distribution %s %r" % (
            names, [c["scope"] for c in desc["constraints"]], case["distribution"], distribution.mapping())
        if fatal:
            return Outcome(False, "the orchestrator thread died: %s [%s]" % (fatal[0], ctx), nontrivial, labels,
                           info={"kind": "fatal"})
        if status == "TIMEOUT":
            return Outcome(False, "the run ended by TIMEOUT after 12 s; computations that reported their end: %r of %r "
                                  "[%s]" % (sorted(ended_at_return), comp_names, ctx), nontrivial, labels,
                           info={"kind": "timeout"})
        if sorted(set(ended_at_return)) != comp_names:
            return Outcome(False, "run() returned with status %r but only %r of %r reported end_of_computation [%s]" % (
                status, sorted(set(ended_at_return)), comp_names, ctx), nontrivial, labels, info={"kind": "not-ended"})
        assignment = metrics.get("assignment") or {}
        if sorted(assignment) != sorted(names):
            return Outcome(False, "reported assignment %r does not cover the variables %r [%s]" % (
                assignment, sorted(names), ctx), nontrivial, labels, info={"kind": "coverage"})
        for n in names:
            if assignment[n] not in oracles.domain_of(desc, n):
                return Outcome(False, "reported value %r of %s is not in its domain %r [%s]" % (
                    assignment[n], n, oracles.domain_of(desc, n), ctx), nontrivial, labels, info={"kind": "domain"})
        got = oracles.total_cost(desc, assignment)
        best = oracles.brute_force(desc)[0]
        if abs(got - best) > 1e-9 * max(1, abs(best)):
            return Outcome(False, "reported assignment %r costs %r, the optimum (%s) is %r [%s]" % (
                assignment, got, desc["objective"], best, ctx), nontrivial, labels, info={"kind": "suboptimal"})
        with under_test():
            own_violation, own_cost = dcop.solution_cost(dict(assignment), INFINITY)
        if metrics.get("cost") != own_cost or metrics.get("violation") != own_violation:
            return Outcome(False, "reported cost/violation %r/%r differ from dcop.solution_cost %r/%r for %r [%s]" % (
                metrics.get("cost"), metrics.get("violation"), own_cost, own_violation, assignment, ctx),
                nontrivial, labels, info={"kind": "accounting"})
        terms = [oracles.constraint_value(desc, c, assignment) for c in desc["constraints"]]
        terms += [oracles.var_cost(desc, v, assignment[v["name"]]) for v in desc["variables"]]
        ref_hard = sum(1 for t in terms if t == INFINITY)
        ref_soft = sum(t for t in terms if t != INFINITY)
        if ref_hard:
            labels.append("optimum-with-violations")
        if own_violation != ref_hard or abs(own_cost - ref_soft) > 1e-9 * max(1, abs(ref_soft)):
            return Outcome(False, "dcop.solution_cost gives (%r, %r) for %r, reference accounting (%r hard terms, soft "
                                  "cost %r) [%s]" % (own_violation, own_cost, assignment, ref_hard, ref_soft, ctx),
                           nontrivial, labels, info={"kind": "accounting-ref"})
        return Outcome(True, "", nontrivial, labels)
    except UnderTestError as e:
        if e.exc_type == "ImpossibleDistributionException" and orchestrator is None:
            # the (incomplete by design) heuristic found no mapping for the tight capacities: not a solve run
            return Outcome(True, "", False, labels + ["discard:no-distribution"], discard=True)
        return Outcome(False, "raised %s at %s" % (e, e.frame), nontrivial, labels,
                       info={"kind": "raised", "exc": e.exc_type, "frame": e.frame})
    finally:
        sys.setswitchinterval(old_switch)
        _patch_state["naps"] = None
        if orchestrator is not None:
            try:
                # run() leaves its timeout timer armed when the run ends by itself: disarm it so that no thread of
                # this case outlives it (it would flip the status of a finished run 20 s later)
                if getattr(orchestrator, "_timeout_timer", None) is not None:
                    orchestrator._timeout_timer.cancel()
                orchestrator.stop_agents(5)
                orchestrator.stop()
            except Exception:
                pass
        # no thread of the run may outlive the case
        deadline = time.time() + 10
        while time.time() < deadline:
            extra = [t for t in threading.enumerate() if t not in before and t.is_alive()]
            if not extra:
                break
            time.sleep(0.05)


def classify(case, out):
    info = out.info or {}
    # discovery._is_technical() treats every computation whose name starts with '_' or 'B' (the prefix of the repair
    # computations) as technical: the orchestrator never sees the registration of such a variable's computation, the
    # deployment is never complete and run() waits for ever, before its own timeout is even armed.
    if info.get("kind") == "never-returned" and info.get("phase") == "run" and info.get("technical_names"):
        return "C22-technical-looking-variable-name"
    return None
