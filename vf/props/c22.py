"""C22  Orchestrated solve terminates and reports a true optimal result."""
import sys
import threading
import time

from hypothesis import strategies as st

from .. import build, gen, oracles
from ..run import Outcome, UnderTestError, under_test

PROPERTY = "C22"
LEVEL = "exploration"
TECHNIQUE = ("property-based testing (Hypothesis): generated DCOPs x agent sets x distributions solved by DPOP through "
             "the real Orchestrator and thread-mode OrchestratedAgents under generated scheduling perturbation; "
             "oracle = brute-force optimum + the DCOP's own cost accounting + termination-by-completion predicate")
LEVEL_TEXT = ("Generated DCOPs (1-5 variables, domains of 1-3 values, 0-6 matrix/expression constraints of arity 1-3, "
              "variable costs, min and max) with at least as many agents as variables and ample capacity, distributed "
              "by oneagent, adhoc or gh_cgdp (harness footprint/load functions, DPOP defining none) or by a "
              "generated valid mapping; run by run_local_thread_dcop + deploy_computations + run(timeout=20) - the "
              "calls `pydcop solve` and infrastructure.run.solve make - with real agent threads; perturbation = "
              "generated sys.setswitchinterval and generated micro-sleeps injected into Messaging.post_msg. Oracle: "
              "the orchestrator's status is not TIMEOUT and every computation reported end_of_computation before the "
              "agents were stopped; end_metrics()['assignment'] covers every variable with a value of its domain; "
              "the independent cost of that assignment equals the brute-force optimum; the reported cost and "
              "violation equal both dcop.solution_cost(assignment, infinity) and the reference accounting. "
              "Thread interleavings are perturbed, not enumerated.")
LEVEL_NOTE = ("Trusted: the brute-force oracle, the reference cost accounting. A run costs about 1.5 s of wall clock "
              "(fixed sleeps in agent start/stop), which bounds the number of cases; the same DPOP computations are "
              "explored far more densely, with owned schedules, by C01.")
RULE = ("case = DCOP + agents + distribution + perturbation; non-trivial = >=3 variables, >=2 constraints of arity >=2 "
        "and >=2 agents hosting computations; distinct by sha1(case)")
ASSUMPTIONS = ["thread mode (all agents in this process)", "costs are small integers or dyadic floats: the optimum is "
               "exactly representable and far below the infinity constant 10000"]
BUDGET = {"quick": {"workers": 8, "examples": 25, "seconds": 45, "shrink_seconds": 60},
          "thorough": {"workers": 16, "examples": 400, "seconds": 1200, "shrink_seconds": 300}}

INFINITY = 10000


@st.composite
def cases(draw):
    nv = draw(st.sampled_from([1, 2, 3, 3, 4, 4, 5]))
    dcop = draw(gen.dcops(min_vars=nv, max_vars=nv, max_dom=3, max_constraints=6, arities=(1, 2, 3),
                          kinds=("matrix", "expr"), var_costs=True, min_constraints=min(nv - 1, 3)))
    na = nv + draw(st.integers(0, 2))
    return {"dcop": dcop, "n_agents": na,
            "distribution": draw(st.sampled_from(["oneagent", "adhoc", "gh_cgdp", "mapping"])),
            "mapping": draw(st.lists(st.integers(0, na - 1), min_size=nv, max_size=nv)),
            "hosting": draw(st.lists(st.sampled_from([1, 2, 5, 10]), min_size=na, max_size=na)),
            # every computation has footprint 1: a capacity of 2 or 3 spreads the computations over several agents
            "capacity": draw(st.sampled_from([2, 2, 3, 1000])),
            "switch_us": draw(st.sampled_from([5, 50, 500, 5000])),
            "naps": draw(st.lists(st.sampled_from([0, 0, 0, 0, 1, 2, 5]), min_size=8, max_size=8)),
            "rng_seed": draw(st.integers(0, 10 ** 6))}


def case_strategy(tier):
    return cases()


_patch_state = {"installed": False, "naps": None, "count": 0}


def _install_perturbation():
    """Class-level wrapper around Messaging.post_msg: sleeps naps[k % 8] * 100 us before every k-th post while armed."""
    from pydcop.infrastructure.communication import Messaging
    if _patch_state["installed"]:
        return
    orig = Messaging.post_msg

    def post_msg(self, *a, **k):
        naps = _patch_state["naps"]
        if naps:
            _patch_state["count"] += 1
            n = naps[_patch_state["count"] % len(naps)]
            if n:
                time.sleep(n * 1e-4)
        return orig(self, *a, **k)

    Messaging.post_msg = post_msg
    _patch_state["installed"] = True


def run_case(case):
    import random
    desc = case["dcop"]
    labels = gen.dcop_labels(desc) + ["dist:" + case["distribution"]]
    names = [v["name"] for v in desc["variables"]]
    nontrivial = False
    orchestrator = None
    old_switch = sys.getswitchinterval()
    before = set(threading.enumerate())
    try:
        with under_test():
            import numpy
            from importlib import import_module
            from pydcop.algorithms import AlgorithmDef
            from pydcop.computations_graph import pseudotree
            from pydcop.dcop.objects import AgentDef
            from pydcop.distribution.objects import Distribution
            from pydcop.infrastructure import orchestrator as orch_mod
            from pydcop.infrastructure.run import run_local_thread_dcop
            random.seed(case["rng_seed"])
            numpy.random.seed(case["rng_seed"] % (2 ** 32))
            dcop, _, _ = build.build_dcop(desc)
            agents = [AgentDef("a%02d" % i, capacity=case.get("capacity", 1000), default_hosting_cost=case["hosting"][i])
                      for i in range(case["n_agents"])]
            dcop.add_agents(agents)
            cg = pseudotree.build_computation_graph(dcop)
            comp_names = sorted(n.name for n in cg.nodes)
            if case["distribution"] == "mapping":
                m = {}
                for c, ai in zip(comp_names, case["mapping"]):
                    m.setdefault(agents[ai].name, []).append(c)
                distribution = Distribution(m)
            else:
                dm = import_module("pydcop.distribution." + case["distribution"])
                distribution = dm.distribute(cg, list(dcop.agents.values()), hints=None,
                                             computation_memory=lambda node: 1,
                                             communication_load=lambda node, target: 1)
            hosting_agents = [a for a in distribution.agents if distribution.computations_hosted(a)]
            algo = AlgorithmDef.build_with_default_param("dpop", {}, mode=dcop.objective)
            _install_perturbation()
        nontrivial = len(names) >= 3 and sum(1 for c in desc["constraints"] if len(c["scope"]) >= 2) >= 2 \
            and len(hosting_agents) >= 2
        labels.append("agents-used:%d" % min(len(hosting_agents), 4))
        ended = []
        end_after_stop = []
        stop_requested = [False]
        orig_end = orch_mod.AgentsMgt._on_computation_end_msg
        orig_stop = orch_mod.AgentsMgt._orchestrator_stop_agents

        def on_end(self, sender, msg, t):
            ended.append(msg.computation)
            return orig_end(self, sender, msg, t)

        def on_stop(self, *a):
            stop_requested[0] = True
            return orig_stop(self, *a)

        orch_mod.AgentsMgt._on_computation_end_msg = on_end
        orch_mod.AgentsMgt._orchestrator_stop_agents = on_stop
        fatal = []
        try:
            sys.setswitchinterval(case["switch_us"] / 1e6)
            _patch_state["naps"] = list(case["naps"])
            with under_test():
                orchestrator = run_local_thread_dcop(algo, cg, distribution, dcop, INFINITY)
                orchestrator.set_error_handler(lambda e: fatal.append(repr(e)[:300]))
                orchestrator.deploy_computations()
                orchestrator.run(timeout=20)
                status = orchestrator.status
                ended_at_return = list(ended)
                metrics = orchestrator.end_metrics()
        finally:
            _patch_state["naps"] = None
            sys.setswitchinterval(old_switch)
            orch_mod.AgentsMgt._on_computation_end_msg = orig_end
            orch_mod.AgentsMgt._orchestrator_stop_agents = orig_stop
        ctx = "variables %r, constraints %r, distribution %s %r" % (
            names, [c["scope"] for c in desc["constraints"]], case["distribution"], distribution.mapping())
        if fatal:
            return Outcome(False, "the orchestrator thread died: %s [%s]" % (fatal[0], ctx), nontrivial, labels,
                           info={"kind": "fatal"})
        if status == "TIMEOUT":
            return Outcome(False, "the run ended by TIMEOUT after 20 s; computations that reported their end: %r of %r "
                                  "[%s]" % (sorted(ended_at_return), comp_names, ctx), nontrivial, labels,
                           info={"kind": "timeout"})
        if sorted(set(ended_at_return)) != comp_names:
            return Outcome(False, "run() returned with status %r but only %r of %r reported end_of_computation [%s]" % (
                status, sorted(set(ended_at_return)), comp_names, ctx), nontrivial, labels, info={"kind": "not-ended"})
        assignment = metrics.get("assignment") or {}
        if sorted(assignment) != sorted(names):
            return Outcome(False, "reported assignment %r does not cover the variables %r [%s]" % (
                assignment, sorted(names), ctx), nontrivial, labels, info={"kind": "coverage"})
        for n in names:
            if assignment[n] not in oracles.domain_of(desc, n):
                return Outcome(False, "reported value %r of %s is not in its domain %r [%s]" % (
                    assignment[n], n, oracles.domain_of(desc, n), ctx), nontrivial, labels, info={"kind": "domain"})
        got = oracles.total_cost(desc, assignment)
        best = oracles.brute_force(desc)[0]
        if abs(got - best) > 1e-9 * max(1, abs(best)):
            return Outcome(False, "reported assignment %r costs %r, the optimum (%s) is %r [%s]" % (
                assignment, got, desc["objective"], best, ctx), nontrivial, labels, info={"kind": "suboptimal"})
        with under_test():
            own_violation, own_cost = dcop.solution_cost(dict(assignment), INFINITY)
        if metrics.get("cost") != own_cost or metrics.get("violation") != own_violation:
            return Outcome(False, "reported cost/violation %r/%r differ from dcop.solution_cost %r/%r for %r [%s]" % (
                metrics.get("cost"), metrics.get("violation"), own_cost, own_violation, assignment, ctx),
                nontrivial, labels, info={"kind": "accounting"})
        if own_violation != 0 or abs(own_cost - got) > 1e-9 * max(1, abs(got)):
            return Outcome(False, "dcop.solution_cost gives (%r, %r) for %r, reference cost %r with no hard term [%s]" % (
                own_violation, own_cost, assignment, got, ctx), nontrivial, labels, info={"kind": "accounting-ref"})
        return Outcome(True, "", nontrivial, labels)
    except UnderTestError as e:
        if e.exc_type == "ImpossibleDistributionException" and orchestrator is None:
            # the (incomplete by design) heuristic found no mapping for the tight capacities: not a solve run
            return Outcome(True, "", False, labels + ["discard:no-distribution"], discard=True)
        return Outcome(False, "raised %s at %s" % (e, e.frame), nontrivial, labels,
                       info={"kind": "raised", "exc": e.exc_type, "frame": e.frame})
    finally:
        sys.setswitchinterval(old_switch)
        _patch_state["naps"] = None
        if orchestrator is not None:
            try:
                # run() leaves its timeout timer armed when the run ends by itself: disarm it so that no thread of
                # this case outlives it (it would flip the status of a finished run 20 s later)
                if getattr(orchestrator, "_timeout_timer", None) is not None:
                    orchestrator._timeout_timer.cancel()
                orchestrator.stop_agents(5)
                orchestrator.stop()
            except Exception:
                pass
        # no thread of the run may outlive the case
        deadline = time.time() + 10
        while time.time() < deadline:
            extra = [t for t in threading.enumerate() if t not in before and t.is_alive()]
            if not extra:
                break
            time.sleep(0.05)
