"""C30  Problem and scenario generators produce well-formed instances."""
import contextlib
import io
import itertools
import os

from hypothesis import strategies as st

from ..run import Outcome, UnderTestError, under_test

PROPERTY = "C30"
LEVEL = "exploration"
TECHNIQUE = ("property-based testing (Hypothesis): generated valid generator command lines (graph colouring, Ising, "
             "scenario) run through the real argument parsers with a seeded RNG; oracles = graph isomorphism with the "
             "generated network + per-constraint cost table predicates, differential intentional-vs-extensive "
             "comparison on every assignment, exact-cover check of the distributions, history invariant over the "
             "scenario's removal events")
LEVEL_TEXT = ("Graph colouring: 1-12 variables (1/4/9/16 for grids), 1-8 colours, random (p_edge), scale-free (m_edge "
              "in 1..n-1) and grid graphs, allow_subgraph, hard/soft, intentional/extensive, with/without agents, run "
              "through the real `generate graph_coloring` parser with --output; the network produced by the "
              "generate_*_graph function is captured by wrapping it; the written YAML is loaded back. Oracle: "
              "requested number of variables, each over exactly the requested colours; one binary constraint per "
              "edge (count equal, scopes pairwise distinct, constraint graph isomorphic to the captured network); hard "
              "=> cost 0 on different colours and one positive cost on equal colours; soft => extensive, finite "
              "non-negative weights below the hard cost; one agent per variable unless --noagents. Ising: 3-5 rows (one case in five: a 3 x 10..13 strip), "
              "optional 3-5 columns, ranges, all flag combinations, generated twice from the same RNG seed in "
              "extensive and intentional form, both through generate_ising and through the command with --output "
              "(files loaded back) or on stdout. Oracle: same variables and constraint names, every constraint equal "
              "on every assignment; requested var/factor-graph distributions build a Distribution, host every "
              "variable (resp. every variable and constraint) exactly once on declared agents. Scenario: agent sets "
              "of 2-8, events x actions <= #agents, through generate_scenario and through the command (files loaded "
              "back). Oracle: events alternate with delays as requested, each event removes exactly the requested "
              "number of distinct declared agents, none removed before. Sampling, not proof.")
LEVEL_NOTE = ("Trusted: networkx.is_isomorphic, the YAML loader of the repository (checked by C14) for the file route. "
              "Ising grids of size 2 are rejected by the command (row/col must be > 2), so they are outside 'valid "
              "arguments': generate_ising(2, 2) is probed and its outcome only reported under a label. The numeric "
              "hard cost (1000 in code, 10000 in the documentation) is not asserted, only 'positive, same for every "
              "colour'.")
RULE = ("case = generator + argument values + RNG seed; non-trivial = colouring with >=3 variables and >=2 edges, "
        "Ising (always: >=9 variables, 27 constraints), scenario with >=2 events; distinct by sha1(case)")
ASSUMPTIONS = ["random graphs that must be connected are requested with p_edge >= 0.3 (the generator retries until "
               "connected; a tiny p_edge makes that loop arbitrarily long, which is a cost, not a property, issue)"]
BUDGET = {"quick": {"workers": 4, "examples": 350, "seconds": 40},
          "thorough": {"workers": 16, "examples": 6000, "seconds": 600}}

COLORS = ["R", "G", "B", "O", "F", "Y", "L", "C"]


@st.composite
def coloring(draw):
    graph = draw(st.sampled_from(["random", "scalefree", "grid"]))
    c = {"target": "coloring", "graph": graph, "colors": draw(st.integers(1, 8)),
         "soft": draw(st.booleans()), "noagents": draw(st.booleans()), "allow_subgraph": draw(st.booleans()),
         "short_opts": draw(st.booleans())}
    c["intentional"] = False if c["soft"] else draw(st.booleans())
    if graph == "grid":
        c["n"] = draw(st.sampled_from([1, 4, 9, 16]))
    elif graph == "random":
        c["n"] = draw(st.integers(1, 12))
        c["p_edge"] = draw(st.sampled_from([0.05, 0.2, 0.3, 0.5, 0.8, 1.0] if c["allow_subgraph"] else [0.3, 0.5, 0.8, 1.0]))
    else:
        c["n"] = draw(st.integers(2, 12))
        c["m_edge"] = draw(st.integers(1, c["n"] - 1))
    return c


@st.composite
def ising(draw):
    # one case in five has a long side (10-13): indices with two digits, where textual and numeric order part
    long_side = draw(st.integers(0, 4)) == 0
    rows = draw(st.integers(3, 5))
    cols = draw(st.one_of(st.none(), st.integers(3, 5)))
    if long_side:
        if draw(st.booleans()):
            rows, cols = 3, draw(st.integers(10, 13))
        else:
            rows, cols = draw(st.integers(10, 13)), 3
    c = {"target": "ising", "rows": rows, "cols": cols,
         "bin_range": draw(st.sampled_from([1.6, 0.5, 3.0, 1e-3, 100.0])),
         "un_range": draw(st.sampled_from([0.05, 0.0, 1.0, 1e-4])),
         "no_agents": draw(st.booleans()), "fg_dist": draw(st.booleans()), "var_dist": draw(st.booleans()),
         "route": draw(st.sampled_from(["api", "file", "stdout"]))}
    if c["route"] == "stdout" and c["fg_dist"] and c["var_dist"]:
        c["var_dist"] = False  # two YAML documents glued on stdout cannot be told apart: one at a time
    return c


@st.composite
def scenario(draw):
    n = draw(st.integers(2, 8))
    evts = draw(st.integers(0, 4))
    acts = draw(st.integers(0, n if evts == 0 else n // evts))
    return {"target": "scenario", "agents": n, "evts": evts, "actions": acts,
            "delay": draw(st.integers(0, 30)), "initial_delay": draw(st.one_of(st.none(), st.integers(0, 30))),
            "end_delay": draw(st.one_of(st.none(), st.integers(0, 30))),
            "route": draw(st.sampled_from(["api", "file", "file_end"])),
            "names": draw(st.sampled_from(["a%02d", "agt_%d", "a%d"]))}


@st.composite
def cases(draw):
    c = draw(st.one_of(coloring(), coloring(), ising(), scenario()))
    c["rng_seed"] = draw(st.integers(0, 10 ** 6))
    return c


def case_strategy(tier):
    return cases()


def _parser():
    import argparse
    from pydcop.commands import generate
    parser = argparse.ArgumentParser(description="pydcop")
    parser.add_argument("--output", type=str)
    sub = parser.add_subparsers(title="Actions", dest="action")
    generate.set_parser(sub)
    return parser


def _run_cli(argv, seed):
    """Parse argv with the real parsers and run the command; -> captured stdout."""
    import random
    import numpy
    buf = io.StringIO()
    with under_test(), contextlib.redirect_stdout(buf):
        args = _parser().parse_args(argv)
        random.seed(seed)
        numpy.random.seed(seed % (2 ** 32))
        args.func(args)
    return buf.getvalue()


def _all_assignments(variables):
    names = [v.name for v in variables]
    for vals in itertools.product(*[list(v.domain.values) for v in variables]):
        yield dict(zip(names, vals))


# --------------------------------------------------------------------------- colouring


def run_coloring(case, labels):
    import networkx as nx
    with under_test():
        from pydcop.commands.generators import graphcoloring as gc
        from pydcop.dcop.yamldcop import load_dcop_from_file
    n = case["n"]
    captured = []
    names = ["generate_random_graph", "generate_scalefree_graph", "generate_grid_graph"]
    orig = {k: getattr(gc, k) for k in names}

    def wrap(f):
        def w(*a, **kw):
            g = f(*a, **kw)
            captured.append(g)
            return g
        return w

    out = os.path.abspath("gc.yaml")
    so = case["short_opts"]
    argv = ["--output", out, "generate", "graph_coloring", "-v" if so else "--variables_count", str(n),
            "-c" if so else "--colors_count", str(case["colors"]), "-g" if so else "--graph", case["graph"]]
    if case["graph"] == "random":
        argv += ["-p" if so else "--p_edge", str(case["p_edge"])]
    if case["graph"] == "scalefree":
        argv += ["-m" if so else "--m_edge", str(case["m_edge"])]
    for flag in ("soft", "intentional", "noagents", "allow_subgraph"):
        if case[flag]:
            argv.append("--" + flag)
    try:
        for k in names:
            setattr(gc, k, wrap(orig[k]))
        _run_cli(argv, case["rng_seed"])
    finally:
        for k in names:
            setattr(gc, k, orig[k])
    desc = "`pydcop %s`" % " ".join(argv[2:])
    if len(captured) != 1:
        return "%s built %d networks" % (desc, len(captured)), False
    g = captured[0]
    with under_test():
        dcop = load_dcop_from_file([out])
        variables = dict(dcop.variables)
        constraints = dict(dcop.constraints)
        agents = dict(dcop.agents)
    edges = g.number_of_edges()
    labels.append("edges:%s" % ("0" if edges == 0 else "1" if edges == 1 else "2+"))
    nontrivial = n >= 3 and edges >= 2
    if len(variables) != n:
        return "%s produced %d variables %r, %d requested (network has %d nodes)" % (
            desc, len(variables), sorted(variables), n, g.number_of_nodes()), nontrivial
    for v in variables.values():
        if list(v.domain.values) != COLORS[:case["colors"]] and set(v.domain.values) != set(COLORS[:case["colors"]]):
            return "%s: variable %s has colours %r, expected %r" % (desc, v.name, list(v.domain.values),
                                                                    COLORS[:case["colors"]]), nontrivial
    if len(constraints) != edges:
        return "%s produced %d constraints for %d edges" % (desc, len(constraints), edges), nontrivial
    cg = nx.Graph()
    cg.add_nodes_from(variables)
    scopes = set()
    hard_cost = None
    for c in constraints.values():
        sc = [d.name for d in c.dimensions]
        if len(sc) != 2 or sc[0] == sc[1] or not set(sc) <= set(variables):
            return "%s: constraint %s has scope %r, expected two distinct variables" % (desc, c.name, sc), nontrivial
        if frozenset(sc) in scopes:
            return "%s: two constraints on the same pair %r" % (desc, sorted(sc)), nontrivial
        scopes.add(frozenset(sc))
        cg.add_edge(*sc)
        for asg in _all_assignments(c.dimensions):
            with under_test():
                val = c(**asg)
            same = asg[sc[0]] == asg[sc[1]]
            if case["soft"]:
                if not (isinstance(val, (int, float)) or hasattr(val, "item")) or not (0 <= val < 1000):
                    return "%s: soft constraint %s has cost %r on %r (expected a finite weight in [0, 1000))" % (
                        desc, c.name, val, asg), nontrivial
            else:
                if same:
                    if not val > 0 or (hard_cost is not None and val != hard_cost):
                        return "%s: hard constraint %s costs %r on equal colours %r (other equal pairs cost %r)" % (
                            desc, c.name, val, asg, hard_cost), nontrivial
                    hard_cost = val
                elif val != 0:
                    return "%s: hard constraint %s costs %r on different colours %r" % (desc, c.name, val, asg), nontrivial
        if case["soft"] and type(c).__name__ != "NAryMatrixRelation":
            return "%s: soft constraint %s is not extensive (%s)" % (desc, c.name, type(c).__name__), nontrivial
        if not case["soft"] and case["intentional"] != (type(c).__name__ != "NAryMatrixRelation"):
            return "%s: constraint %s has form %s although intentional=%s" % (
                desc, c.name, type(c).__name__, case["intentional"]), nontrivial
    g2 = nx.Graph()
    g2.add_nodes_from(g.nodes)
    g2.add_edges_from(g.edges)
    if not nx.is_isomorphic(cg, g2):
        return "%s: constraint graph (degrees %r) is not the generated network (degrees %r)" % (
            desc, sorted(dict(cg.degree).values()), sorted(dict(g2.degree).values())), nontrivial
    if not case["allow_subgraph"] and n >= 1 and case["graph"] != "grid" and not nx.is_connected(cg):
        return "%s: disconnected constraint graph although sub-graphs were not allowed" % desc, nontrivial
    if case["noagents"] != (len(agents) == 0) or (not case["noagents"] and len(agents) != n):
        return "%s: %d agents for %d variables (noagents=%s)" % (desc, len(agents), n, case["noagents"]), nontrivial
    return None, nontrivial


# --------------------------------------------------------------------------- ising


def _ising_api(case, extensive):
    import random
    with under_test():
        from pydcop.commands.generators.ising import generate_ising
        random.seed(case["rng_seed"])
        cols = case["cols"] or case["rows"]
        return generate_ising(case["rows"], cols, case["bin_range"], case["un_range"], extensive,
                              no_agents=case["no_agents"], fg_dist=case["fg_dist"], var_dist=case["var_dist"])


def _ising_cli(case, extensive):
    import yaml
    with under_test():
        from pydcop.dcop.yamldcop import load_dcop, load_dcop_from_file
    tag = "ext" if extensive else "int"
    out = os.path.abspath("ising_%s.yaml" % tag)
    argv = (["--output", out] if case["route"] == "file" else []) + ["generate", "ising", "--row_count", str(case["rows"])]
    if case["cols"]:
        argv += ["--col_count", str(case["cols"])]
    argv += ["--bin_range", repr(case["bin_range"]), "--un_range", repr(case["un_range"])]
    for flag in ("no_agents", "fg_dist", "var_dist"):
        if case[flag]:
            argv.append("--" + flag)
    if not extensive:
        argv.append("--intentional")
    text = _run_cli(argv, case["rng_seed"])
    var_map = fg_map = None
    if case["route"] == "file":
        with under_test():
            dcop = load_dcop_from_file([out])
        base = out[:-5]
        if case["fg_dist"]:
            fg_map = yaml.safe_load(open(base + "_fgdist.yaml"))["distribution"]
        if case["var_dist"]:
            var_map = yaml.safe_load(open(base + "_vardist.yaml"))["distribution"]
    else:
        with under_test():
            dcop = load_dcop(text)
        doc = yaml.safe_load(text)
        if case["fg_dist"]:
            fg_map = doc.get("distribution")
        if case["var_dist"]:
            var_map = doc.get("distribution")
    return dcop, var_map, fg_map, "`pydcop %s`" % " ".join(argv)


def run_ising(case, labels):
    labels.append("ising:" + case["route"])
    if case["route"] == "api":
        d_ext, var_map, fg_map = _ising_api(case, True)
        d_int, var_map_i, fg_map_i = _ising_api(case, False)
        desc = "generate_ising(%r)" % {k: case[k] for k in ("rows", "cols", "bin_range", "un_range", "no_agents",
                                                            "fg_dist", "var_dist")}
    else:
        d_ext, var_map, fg_map, desc = _ising_cli(case, True)
        d_int, var_map_i, fg_map_i, _ = _ising_cli(case, False)
    rows, cols = case["rows"], case["cols"] or case["rows"]
    with under_test():
        v_ext, v_int = dict(d_ext.variables), dict(d_int.variables)
        c_ext, c_int = dict(d_ext.constraints), dict(d_int.constraints)
        agents = dict(d_ext.agents)
    if set(v_ext) != set(v_int) or len(v_ext) != rows * cols:
        return "%s: %d / %d variables for a %dx%d grid" % (desc, len(v_ext), len(v_int), rows, cols), True
    if set(c_ext) != set(c_int):
        return "%s: extensive and intentional forms have different constraints: %r" % (
            desc, sorted(set(c_ext) ^ set(c_int))[:4]), True
    if len(c_ext) != 3 * rows * cols:
        return "%s: %d constraints, expected one unary per variable and two binary per cell = %d" % (
            desc, len(c_ext), 3 * rows * cols), True
    tol = 0 if case["route"] == "api" else 1e-9
    for name in sorted(c_ext):
        ce, ci = c_ext[name], c_int[name]
        if sorted(d.name for d in ce.dimensions) != sorted(d.name for d in ci.dimensions):
            return "%s: constraint %s has different scopes in the two forms" % (desc, name), True
        for asg in _all_assignments(ce.dimensions):
            with under_test():
                a, b = ce(**asg), ci(**asg)
            if abs(a - b) > tol * max(1, abs(a)):
                return "%s: constraint %s on %r: extensive %r != intentional %r" % (desc, name, asg, a, b), True
    if case["no_agents"] != (len(agents) == 0):
        return "%s: %d agents with no_agents=%s" % (desc, len(agents), case["no_agents"]), True
    for kind, mapping, expected in (("var_dist", var_map, set(v_ext)), ("fg_dist", fg_map, set(v_ext) | set(c_ext))):
        if not case[kind]:
            continue
        labels.append(kind)
        if not isinstance(mapping, dict):
            return "%s: no %s distribution produced (%r)" % (desc, kind, mapping), True
        with under_test():
            from pydcop.distribution.objects import Distribution
            dist = Distribution({a: list(cs) for a, cs in mapping.items()})
            hosted = list(dist.computations)
        flat = [c for cs in mapping.values() for c in cs]
        if len(flat) != len(set(flat)) or set(flat) != expected or set(hosted) != expected:
            dup = sorted(c for c in set(flat) if flat.count(c) > 1)[:3]
            return "%s: %s distribution does not host every computation exactly once: duplicates %r, missing %r, " \
                   "unknown %r" % (desc, kind, dup, sorted(expected - set(flat))[:3], sorted(set(flat) - expected)[:3]), True
        if agents and not set(mapping) <= set(agents):
            return "%s: %s distribution uses undeclared agents %r" % (desc, kind, sorted(set(mapping) - set(agents))[:3]), True
    # size-2 probe (outside the command's valid arguments): reported, never asserted
    if case["route"] == "api" and case["fg_dist"] and case["rng_seed"] % 5 == 0:
        try:
            with under_test():
                from pydcop.commands.generators.ising import generate_ising
                _, _, fg2 = generate_ising(2, 2, 1.0, 1.0, True, no_agents=False, fg_dist=True, var_dist=False)
            flat = [c for cs in fg2.values() for c in cs]
            labels.append("probe-size2:" + ("duplicates" if len(flat) != len(set(flat)) else "exact"))
        except UnderTestError:
            labels.append("probe-size2:raises")
    return None, True


# --------------------------------------------------------------------------- scenario


def run_scenario(case, labels):
    import random
    labels.append("scenario:" + case["route"])
    n = case["agents"]
    agents = [case["names"] % i for i in range(n)]
    nontrivial = case["evts"] >= 2 and case["actions"] >= 1
    init = 20 if case["initial_delay"] is None else case["initial_delay"]
    end = 20 if case["end_delay"] is None else case["end_delay"]
    if case["route"] == "api":
        with under_test():
            from pydcop.commands.generators.scenario import generate_scenario
            random.seed(case["rng_seed"])
            scen = generate_scenario(case["evts"], case["actions"], case["delay"], init, end, list(agents))
        desc = "generate_scenario(%d, %d, ..., %d agents)" % (case["evts"], case["actions"], n)
    else:
        with under_test():
            from pydcop.dcop.dcop import DCOP
            from pydcop.dcop.objects import AgentDef, Variable, VariableDomain
            from pydcop.dcop.yamldcop import dcop_yaml, load_scenario_from_file
            dom = VariableDomain("d", "d", [0, 1])
            dcop = DCOP("p", domains={"d": dom}, variables={"v": Variable("v", dom)}, constraints={},
                        agents={a: AgentDef(a) for a in agents})
            text = dcop_yaml(dcop)
        k = text.index("agents:")
        open("p_main.yaml", "w").write(text[:k])
        open("p_agts.yaml", "w").write(text[k:])
        out = os.path.abspath("scenario.yaml")
        argv = ["--output", out, "generate", "scenario", "--evts_count", str(case["evts"]),
                "--actions_count", str(case["actions"]), "--delay", str(case["delay"])]
        if case["initial_delay"] is not None:
            argv += ["--initial_delay", str(init)]
        if case["end_delay"] is not None:
            argv += ["--end_delay", str(end)]
        files = [os.path.abspath("p_main.yaml"), os.path.abspath("p_agts.yaml")]
        if case["route"] == "file":
            argv += ["--dcop_files"] + files
        else:
            argv += files
        _run_cli(argv, case["rng_seed"])
        with under_test():
            scen = load_scenario_from_file(out)
        desc = "`pydcop %s`" % " ".join(argv)
    with under_test():
        events = list(scen.events)
        view = [(e.id, e.delay if e.is_delay else None,
                 None if e.is_delay else [(a.type, dict(a.args)) for a in (e.actions or [])]) for e in events]
    removed = []
    real = [v for v in view if v[1] is None]
    if len(real) != case["evts"]:
        return "%s: %d events, %d requested: %r" % (desc, len(real), case["evts"], view), nontrivial
    if not view or view[0][1] != init or view[-1][1] != end or len(view) < 2:
        return "%s: scenario does not start/end with the requested delays: %r" % (desc, view[:1] + view[-1:]), nontrivial
    inner = view[1:-1]
    for i, v in enumerate(inner):
        is_evt = v[1] is None
        if is_evt != (i % 2 == 0) or (not is_evt and v[1] != case["delay"]):
            return "%s: events and delays of %r do not alternate as requested: %r" % (desc, case["delay"], view), nontrivial
    for eid, _, actions in real:
        names = []
        for ty, args in actions:
            if ty != "remove_agent" or set(args) != {"agent"}:
                return "%s: event %s has action %r %r" % (desc, eid, ty, args), nontrivial
            names.append(args["agent"])
        if len(names) != case["actions"] or len(set(names)) != len(names):
            return "%s: event %s removes %r, %d distinct agents requested" % (desc, eid, names, case["actions"]), nontrivial
        if not set(names) <= set(agents):
            return "%s: event %s removes undeclared agents %r" % (desc, eid, sorted(set(names) - set(agents))), nontrivial
        again = [a for a in names if a in removed]
        if again:
            return "%s: event %s removes %r which left in an earlier event" % (desc, eid, again), nontrivial
        removed += names
    return None, nontrivial


def run_case(case):
    labels = [case["target"]]
    if case["target"] == "coloring":
        labels += ["graph:" + case["graph"], "soft" if case["soft"] else ("hard-int" if case["intentional"] else "hard-ext")]
    try:
        why, nontrivial = {"coloring": run_coloring, "ising": run_ising, "scenario": run_scenario}[case["target"]](case, labels)
    except UnderTestError as e:
        return Outcome(False, "raised %s at %s" % (e, e.frame), True, labels, info={"exc": e.exc_type, "frame": e.frame})
    finally:
        for f in os.listdir("."):
            if f.endswith(".yaml"):
                os.remove(f)
    if why:
        return Outcome(False, why, nontrivial, labels, info={"kind": case["target"]})
    return Outcome(True, "", nontrivial, labels)


def postcheck(cov, tier):
    need = ["coloring", "ising", "scenario", "graph:random", "graph:scalefree", "graph:grid", "soft", "hard-int",
            "hard-ext", "ising:api", "ising:file", "ising:stdout", "var_dist", "fg_dist", "scenario:api",
            "scenario:file", "scenario:file_end"]
    missing = [l for l in need if not cov["labels"].get(l)]
    return ("classes never generated: %s" % missing) if missing else None
