"""C06  Best-response helpers return exactly the optimal values and cost.

target "helpers": direct calls of find_optimal / find_arg_optimal / optimal_cost_value / projection.
target "dsa":     DSA (A/B/C), A-DSA and dsatuto computations run on SimNet; every move must go to
                  a member of the reference arg-opt set for the neighbour values the computation was sent.
"""
from hypothesis import strategies as st

from .. import build, gen, oracles
from ..run import Outcome, UnderTestError, under_test

PROPERTY = "C06"
LEVEL = "exploration"
TECHNIQUE = ("property-based testing (Hypothesis): helpers vs brute-force arg-opt sets; DSA/A-DSA/dsatuto moves "
             "checked on a deterministic generated-schedule network against protocol-level bookkeeping")
LEVEL_TEXT = ("(a) Generated variable (plain / cost dict / cost expression), 0-4 constraints over it and up to 3 other "
              "variables, an assignment of the others, min/max, and cost magnitudes from small ints, dyadic floats, "
              "beyond 2^31, 2^53 range and +/-inf; find_optimal, find_arg_optimal, optimal_cost_value and projection "
              "are compared with the reference arg-opt set (as a set) and optimum computed from the description. "
              "(b) DSA variants A/B/C, both probability modes, A-DSA (virtual clock) and dsatuto run on SimNet under "
              "generated FIFO schedules; each value change is checked against the reference best-response set for "
              "the neighbour values that were sent for that cycle. Sampling of inputs and schedules, no proof.")
LEVEL_NOTE = ("Trusted: reference evaluator, SimNet's per-channel FIFO model. nan is excluded (no ordering); +inf and "
              "-inf never appear in the same case (their sum is nan).")
RULE = ("helpers: non-trivial = >=2 optimal values, or own cost present, or a magnitude class beyond small; dsa: "
        "non-trivial = >=1 value change after start; distinct by sha1(case)")
ASSUMPTIONS = ["costs are exactly representable (ints, dyadic floats, +/-inf)"]
BUDGET = {"quick": {"workers": 6, "examples": 500, "seconds": 40},
          "thorough": {"workers": 16, "examples": 5000, "seconds": 480}}

MAG = {
    "small": gen.small_int_costs,
    "float": gen.dyadic_costs,
    "big": st.one_of(st.integers(2**31 - 1, 2**31 + 3), st.integers(-2**31 - 3, -2**31 + 1),
                     st.integers(2**33, 2**40), st.integers(-2**40, -2**33), gen.small_int_costs),
    "huge": st.one_of(st.integers(2**53 - 4, 2**53 - 1), st.integers(-2**53 + 1, -2**53 + 4), gen.small_int_costs),
    "posinf": st.one_of(st.just("inf"), st.just("inf"), gen.small_int_costs),
    "neginf": st.one_of(st.just("-inf"), st.just("-inf"), gen.small_int_costs),
    # two possible costs only: several values share the optimum in nearly every case
    "tie": st.integers(0, 1),
}


@st.composite
def helper_cases(draw):
    mag = draw(st.sampled_from(sorted(MAG) + ["small", "float"]))
    costs = MAG[mag]
    n_other = draw(st.sampled_from([0, 1, 1, 2, 2, 3]))
    names = draw(st.lists(st.sampled_from(gen.NAME_POOL), min_size=n_other + 1, max_size=n_other + 1, unique=True))
    x = names[0]
    domains, variables = {}, []
    for i, nm in enumerate(names):
        # the mixed-type domains get extra weight: tied values that cannot be ordered among themselves
        pool = [d for d in gen.INT_DOMS + gen.STR_DOMS] + [["off", 1, 2], [1, "a", 2], ["x", 7]]
        domains["d%d" % i] = list(draw(st.sampled_from(pool)))
        variables.append({"name": nm, "domain": "d%d" % i, "cost": None, "initial": None})
    xd = domains["d0"]
    ck = draw(st.sampled_from(["none", "dict", "dict", "expr"]))
    if ck == "dict":
        variables[0]["cost"] = {"kind": "dict", "costs": draw(st.lists(costs, min_size=len(xd), max_size=len(xd)))}
    elif ck == "expr" and all(isinstance(v, int) for v in xd):
        variables[0]["cost"] = {"kind": "expr", "expr": gen.int_expression(draw, [x])}
    constraints = []
    for k in range(draw(st.sampled_from([0, 1, 1, 2, 2, 3, 4]))):
        others = draw(st.lists(st.sampled_from(names[1:]), max_size=min(2, n_other), unique=True)) if n_other else []
        scope = list(draw(st.permutations([x] + others)))
        c = {"name": "c%d" % k, "scope": scope, "kind": "matrix",
             "table": gen.nested_table(draw, [len(domains["d%d" % names.index(s)]) for s in scope], costs)}
        constraints.append(c)
    desc = {"objective": draw(st.sampled_from(["min", "max"])), "domains": domains, "variables": variables,
            "constraints": constraints}
    assignment = {nm: draw(st.sampled_from(domains["d%d" % i])) for i, nm in enumerate(names) if i > 0}
    # relation to project: any constraint, or a fresh one containing x
    return {"target": "helpers", "dcop": desc, "x": x, "assignment": assignment, "mag": mag}


def case_strategy(tier):
    from . import c06_dsa
    return st.one_of(helper_cases(), c06_dsa.cases())


def _plain(v):
    return v.item() if hasattr(v, "item") else v


def run_helpers(case):
    desc, x, others = case["dcop"], case["x"], case["assignment"]
    mode = desc["objective"]
    xd = oracles.domain_of(desc, x)
    xv = oracles.var_desc(desc, x)
    labels = ["helpers", "mag:" + case["mag"], "mode:" + mode, "cost:" + (xv["cost"]["kind"] if xv["cost"] else "none"),
              "nconstraints:%d" % min(3, len(desc["constraints"]))]

    def local(val, with_own=True):
        a = dict(others, **{x: val})
        return sum(oracles.constraint_value(desc, c, a) for c in desc["constraints"]) + \
            (oracles.var_cost(desc, xv, val) if with_own else 0)

    def argopt(f):
        vals = [(v, f(v)) for v in xd]
        best = (min if mode == "min" else max)(c for _, c in vals)
        return [v for v, c in vals if c == best], best

    ref_vals, ref_cost = argopt(local)
    nontrivial = len(ref_vals) >= 2 or bool(xv["cost"]) or case["mag"] not in ("small", "float")
    if len(ref_vals) >= 2:
        labels.append("ties")
    try:
        with under_test():
            from pydcop.dcop import relations as R
            domains = build.build_domains(desc)
            variables = {v["name"]: build.build_variable(desc, v, domains) for v in desc["variables"]}
            cons = [build.build_constraint(desc, c, variables) for c in desc["constraints"]]
            vals, cost = R.find_optimal(variables[x], dict(others), cons, mode)
        cost = _plain(cost)
        if vals is None or sorted(map(repr, vals)) != sorted(map(repr, ref_vals)) or cost != ref_cost:
            return Outcome(False, "find_optimal(%s) -> (%r, %r), reference (%r, %r)" % (mode, vals, cost, ref_vals, ref_cost),
                           nontrivial, labels, info={"helper": "find_optimal"})
        # find_arg_optimal on each unary relation obtained by slicing a constraint on the others
        for c, r in zip(desc["constraints"], cons):
            part = {n: others[n] for n in c["scope"] if n != x}
            with under_test():
                u = r.slice(dict(part))
                vals, cost = R.find_arg_optimal(variables[x], u, mode)
            rv, rc = argopt(lambda v: oracles.constraint_value(desc, c, dict(others, **{x: v})))
            if sorted(map(repr, vals)) != sorted(map(repr, rv)) or _plain(cost) != rc:
                return Outcome(False, "find_arg_optimal(%s) on %s -> (%r, %r), reference (%r, %r)" % (
                    mode, c["name"], vals, _plain(cost), rv, rc), nontrivial, labels, info={"helper": "find_arg_optimal"})
            # projection of the constraint on x
            with under_test():
                p = R.projection(r, variables[x], mode)
            rest = [n for n in c["scope"] if n != x]
            if [v.name for v in p.dimensions] != rest:
                return Outcome(False, "projection scope %r != %r" % ([v.name for v in p.dimensions], rest),
                               nontrivial, labels, info={"helper": "projection"})
            for a in oracles.all_assignments(desc, rest):
                exp = (min if mode == "min" else max)(oracles.constraint_value(desc, c, dict(a, **{x: v})) for v in xd)
                with under_test():
                    got = _plain(p(**a) if a else p.get_value_for_assignment({}))
                if got != exp:
                    return Outcome(False, "projection(%s, %s, %s) = %r at %r, reference %r" % (
                        c["name"], x, mode, got, a, exp), nontrivial, labels, info={"helper": "projection"})
        with under_test():
            val, cost = R.optimal_cost_value(variables[x], mode)
        rv, rc = argopt(lambda v: oracles.var_cost(desc, xv, v))
        if val not in xd or val not in rv or (cost is not None and _plain(cost) != rc) or (cost is None and xv["cost"]):
            return Outcome(False, "optimal_cost_value(%s) -> (%r, %r), reference values %r cost %r" % (
                mode, val, cost, rv, rc), nontrivial, labels, info={"helper": "optimal_cost_value"})
    except UnderTestError as e:
        return Outcome(False, "raised %s at %s" % (e, e.frame), nontrivial, labels,
                       info={"exc": e.exc_type, "frame": e.frame})
    return Outcome(True, "", nontrivial, labels)


def run_case(case):
    if case["target"] == "helpers":
        return run_helpers(case)
    from . import c06_dsa
    return c06_dsa.run_case(case)
