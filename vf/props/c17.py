"""C17  The pseudo-tree is a valid DFS forest for every constraint graph."""
from hypothesis import strategies as st

from .. import gen, oracles
from ..run import Outcome, UnderTestError, under_test

PROPERTY = "C17"
LEVEL = "exploration"
TECHNIQUE = ("property-based testing (Hypothesis): generated constraint graphs (random, trees, cliques, disconnected, "
             "n-ary, long chains/caterpillars up to 3000 variables) -> pseudo-tree builder, structural validity oracle")
LEVEL_TEXT = ("Constraint graphs are generated as edge/hyper-edge lists: random graphs on up to 14 variables, trees, "
              "cliques, several components, n-ary hyper-edges, and chains / caterpillars whose length is drawn "
              "log-uniformly between 50 and 3000. The real builder runs on a DCOP made of them. Oracle (O(n+m)): one "
              "node per variable; parent/children and pseudo-parent/pseudo-children links are mutually consistent; "
              "following parents terminates, with exactly one root per connected component; every constraint-sharing "
              "pair is in ancestor/descendant relation and directly linked by a tree or back edge; each node carries "
              "exactly the constraints on its variable; construction does not raise. The builder runs on an "
              "empty stack with the default recursion limit; a quarter of the small cases give every constraint "
              "Variable objects of its own. Sizes are sampled, not swept.")
LEVEL_NOTE = "Trusted: the structural oracle in this file. All variables share one 2-value domain (irrelevant here)."
RULE = ("case = graph shape + size + edge list; non-trivial = >=4 variables with a cycle in the constraint graph (a "
        "back edge must exist) or a chain of >=200 variables; distinct by sha1(case)")
ASSUMPTIONS = []
BUDGET = {"quick": {"workers": 6, "examples": 120, "seconds": 50},
          "thorough": {"workers": 16, "examples": 1500, "seconds": 600}}


@st.composite
def cases(draw):
    shape = draw(st.sampled_from(["random", "random", "tree", "clique", "components", "nary", "chain", "caterpillar"]))
    edges = []
    if shape in ("chain", "caterpillar"):
        import math
        n = int(math.exp(draw(st.floats(math.log(50), math.log(3000)))))
        if shape == "chain":
            edges = [[i, i + 1] for i in range(n - 1)]
        else:
            spine = n // 2
            edges = [[i, i + 1] for i in range(spine - 1)] + [[i, spine + i] for i in range(n - spine)]
        return {"shape": shape, "n": n, "edges": None, "perm_seed": draw(st.integers(0, 1000))}
    own = draw(st.integers(0, 3)) == 0
    n = draw(st.integers(1, 14))
    if shape == "tree":
        edges = [[draw(st.integers(0, i - 1)), i] for i in range(1, n)]
    elif shape == "clique":
        n = min(n, 7)
        edges = [[i, j] for i in range(n) for j in range(i + 1, n)]
    elif shape == "nary":
        for _ in range(draw(st.integers(0, 6))):
            k = draw(st.integers(0, min(4, n)))  # 0: a constant constraint (empty scope) belongs to no node
            edges.append(draw(st.lists(st.integers(0, n - 1), min_size=k, max_size=k, unique=True)))
    else:
        p = draw(st.sampled_from([0.1, 0.25, 0.5]))
        for i in range(n):
            for j in range(i + 1, n):
                if draw(st.floats(0, 1)) < p:
                    edges.append([i, j])
        if shape == "components" and n >= 4:
            half = n // 2
            edges = [e for e in edges if (e[0] < half) == (e[1] < half)]
    return {"shape": shape, "n": n, "edges": edges, "perm_seed": 0, "own_variables": own}


def case_strategy(tier):
    return cases()


# The builder runs on a thread of its own (an empty stack, the interpreter's default recursion limit): the depth at
# which the unchanged tree gives up is then a constant of the code, not of the harness.  Measured on the unchanged
# tree: chains of up to RECURSION_DEPTH_OK variables are built, longer ones raise RecursionError.
RECURSION_DEPTH_OK = 496


def classify(case, out):
    """Known finding C17-recursion-long-path: the builder is a recursive token-passing DFS (two Python frames per
    tree level); with the default recursion limit of 1000 it raises RecursionError once the DFS tree is deeper than
    RECURSION_DEPTH_OK levels.  Only a RecursionError on a graph whose DFS tree must be deeper than that matches: a
    builder that gives up earlier is a different failure."""
    if out.info.get("exc") == "RecursionError" and out.info.get("dfs_depth_at_least", 0) > RECURSION_DEPTH_OK:
        return "C17-recursion-long-path"
    return None


def _on_clean_stack(fn):
    """Run fn() on a fresh thread (recursion depth is counted per thread) with the default recursion limit."""
    import sys
    import threading
    box = {}

    def target():
        try:
            with under_test():
                box["value"] = fn()
        except BaseException as e:  # re-raised in the caller
            box["error"] = e

    old = sys.getrecursionlimit()
    sys.setrecursionlimit(1000)
    try:
        t = threading.Thread(target=target, name="c17-builder")
        t.start()
        t.join()
    finally:
        sys.setrecursionlimit(old)
    if "error" in box:
        raise box["error"]
    return box["value"]


def materialise(case):
    n = case["n"]
    if case["edges"] is not None:
        return n, [list(e) for e in case["edges"]]
    if case["shape"] == "chain":
        return n, [[i, i + 1] for i in range(n - 1)]
    spine = n // 2
    return n, [[i, i + 1] for i in range(spine - 1)] + [[i % spine, spine + i] for i in range(n - spine)]


def run_case(case):
    n, edges = materialise(case)
    labels = ["shape:" + case["shape"], "size:" + ("1-5" if n <= 5 else "6-14" if n <= 14 else "50-449" if n < 450
                                                   else "450-3000")]
    names = ["x%04d" % i for i in range(n)]
    adj = {nm: set() for nm in names}
    for e in edges:
        for a in e:
            for b in e:
                if a != b:
                    adj[names[a]].add(names[b])
    # does the constraint graph contain a cycle?  (m >= n - #components for simple graphs; n-ary edges of arity>=3 count)
    comps = 0
    seen = set()
    for s in names:
        if s in seen:
            continue
        comps += 1
        todo = [s]
        while todo:
            x = todo.pop()
            if x in seen:
                continue
            seen.add(x)
            todo.extend(adj[x] - seen)
    pair_edges = {frozenset((names[a], names[b])) for e in edges for a in e for b in e if a != b}
    cyclic = len(pair_edges) > n - comps
    nontrivial = (n >= 4 and cyclic) or n >= 200
    try:
        with under_test():
            from pydcop.computations_graph import pseudotree
            from pydcop.dcop.objects import Domain, Variable
            from pydcop.dcop.relations import NeutralRelation
            dom = Domain("d", "d", [0, 1])
            variables = [Variable(nm, dom) for nm in names]
            if case.get("own_variables"):
                # every constraint carries Variable objects of its own (equal to, but not the same objects as, the
                # ones handed over as variables=): what constraints rebuilt from their wire form or built on
                # Variable.clone() look like
                labels.append("own-variable-objects")
                rels = [NeutralRelation([Variable(names[i], dom) for i in e], name="c%d" % k)
                        for k, e in enumerate(edges)]
            else:
                rels = [NeutralRelation([variables[i] for i in e], name="c%d" % k) for k, e in enumerate(edges)]

        def build():
            graph = pseudotree.build_computation_graph(None, variables=variables, constraints=rels)
            nodes = {}
            for node in graph.nodes:
                if node.name in nodes:
                    return node.name, None
                nodes[node.name] = node
            return nodes, {nm: pseudotree.get_dfs_relations(nodes[nm]) for nm in nodes}

        nodes, rel = _on_clean_stack(build)
        if rel is None:
            return Outcome(False, "two nodes for variable %s" % nodes, nontrivial, labels)
        if sorted(nodes) != names:
            missing = sorted(set(names) - set(nodes))[:5]
            return Outcome(False, "%d nodes for %d variables (missing e.g. %r)" % (len(nodes), n, missing), nontrivial, labels)
        parent = {nm: rel[nm][0] for nm in names}
        pps = {nm: list(rel[nm][1]) for nm in names}
        children = {nm: list(rel[nm][2]) for nm in names}
        pcs = {nm: list(rel[nm][3]) for nm in names}
        for nm in names:
            for lst, what in ((children[nm], "children"), (pps[nm], "pseudo-parents"), (pcs[nm], "pseudo-children")):
                if len(lst) != len(set(lst)):
                    return Outcome(False, "%s lists duplicate %s %r" % (nm, what, lst), nontrivial, labels)
            if parent[nm] is not None and nm not in children.get(parent[nm], []):
                return Outcome(False, "%s has parent %s which does not list it as child" % (nm, parent[nm]), nontrivial, labels)
            for c in children[nm]:
                if parent.get(c) != nm:
                    return Outcome(False, "%s lists child %s whose parent is %r" % (nm, c, parent.get(c)), nontrivial, labels)
            for p in pps[nm]:
                if nm not in pcs.get(p, []):
                    return Outcome(False, "%s has pseudo-parent %s which does not list it as pseudo-child" % (nm, p),
                                   nontrivial, labels)
            for c in pcs[nm]:
                if nm not in pps.get(c, []):
                    return Outcome(False, "%s lists pseudo-child %s which does not list it as pseudo-parent" % (nm, c),
                                   nontrivial, labels)
        # depth / ancestors without recursion; detects parent cycles
        depth, root_of = {}, {}
        for nm in names:
            path, x = [], nm
            while x is not None and x not in depth:
                path.append(x)
                if len(path) > n:
                    return Outcome(False, "following parents from %s does not terminate" % nm, nontrivial, labels)
                x = parent[x]
            base = depth[x] if x is not None else -1
            r = root_of[x] if x is not None else None
            for i, y in enumerate(reversed(path)):
                depth[y] = base + 1 + i
                root_of[y] = r if r is not None else path[-1]
        roots = {nm for nm in names if parent[nm] is None}
        if len(roots) != comps:
            return Outcome(False, "%d roots for %d connected components" % (len(roots), comps), nontrivial, labels)
        # Euler intervals for O(1) ancestor tests (iterative DFS over children)
        tin, tout, t = {}, {}, 0
        for r in sorted(roots):
            stack = [(r, 0)]
            while stack:
                x, i = stack.pop()
                if i == 0:
                    t += 1
                    tin[x] = t
                if i < len(children[x]):
                    stack.append((x, i + 1))
                    stack.append((children[x][i], 0))
                else:
                    t += 1
                    tout[x] = t
        if len(tin) != n:
            return Outcome(False, "only %d of %d nodes reachable from the roots through children links" % (len(tin), n),
                           nontrivial, labels)

        def anc(a, b):  # a ancestor of b
            return tin[a] <= tin[b] and tout[b] <= tout[a]

        for a in names:
            for b in adj[a]:
                if a < b:
                    if not (anc(a, b) or anc(b, a)):
                        return Outcome(False, "%s and %s share a constraint but are in different branches" % (a, b),
                                       nontrivial, labels)
                    up, down = (a, b) if anc(a, b) else (b, a)
                    linked = parent[down] == up or (up in pps[down])
                    if not linked:
                        return Outcome(False, "%s and %s share a constraint but are linked neither by a tree edge nor "
                                       "by a back edge" % (a, b), nontrivial, labels)
            for p in pps[a]:
                if p not in adj[a] or not anc(p, a) or parent[a] == p:
                    return Outcome(False, "%s has pseudo-parent %s (neighbour: %s, ancestor: %s, is parent: %s)" % (
                        a, p, p in adj[a], anc(p, a), parent[a] == p), nontrivial, labels)
            if parent[a] is not None and parent[a] not in adj[a]:
                return Outcome(False, "%s has parent %s which shares no constraint with it" % (a, parent[a]),
                               nontrivial, labels)
        cons_of = {nm: set() for nm in names}
        for k, e in enumerate(edges):
            for i in e:
                cons_of[names[i]].add("c%d" % k)
        for nm in names:
            got = sorted(c.name for c in nodes[nm].constraints)
            if got != sorted(cons_of[nm]):
                return Outcome(False, "%s carries constraints %r, expected %r" % (nm, got[:8], sorted(cons_of[nm])[:8]),
                               nontrivial, labels)
    except UnderTestError as e:
        return Outcome(False, "pseudo-tree construction for %s graph of %d variables raised %s at %s" % (
            case["shape"], n, str(e)[:120], e.frame), nontrivial, labels,
            info={"exc": e.exc_type, "n": n,
                  "dfs_depth_at_least": n if case["shape"] == "chain" else n // 2 + 1 if case["shape"] == "caterpillar" else 0})
    return Outcome(True, "", nontrivial, labels, info={"n": n})
