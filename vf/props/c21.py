"""C21  An agent runs its computations on a single thread, one call at a time."""
import sys
import threading
import time

from hypothesis import strategies as st

from ..run import Outcome, UnderTestError, under_test

PROPERTY = "C21"
LEVEL = "exploration"
TECHNIQUE = ("property-based testing (Hypothesis): generated DCOPs x algorithms x run kinds (plain solve, resilient run "
             "with an agent removal) executed by the real orchestrator and thread-mode agents under generated "
             "scheduling perturbation, with thread-identity and re-entrancy probes wrapped around every computation "
             "callback from the harness; oracle = invariant over the recorded call history")
LEVEL_TEXT = ("Runs: DPOP, DSA, MGM2, Max-Sum, A-Max-Sum and A-DSA (periodic actions) on generated connected binary DCOPs "
              "of 3-5 variables, distributed one variable per agent or two per agent, through run_local_thread_dcop + "
              "deploy_computations + run(timeout); and resilient DSA runs (replication dist_ucs_hostingcosts, k in "
              "1..2, one removal event) which exercise pause/resume, repair computations and their start on the "
              "agents. Probes are installed from the harness by wrapping Agent.add_computation (every computation "
              "instance added to any agent, technical ones included, gets its start / on_message / pause wrapped, as "
              "well as the discovery callbacks it registers: AgentsMgt._cb_*, UCSReplication._on_agent_event) and "
              "Agent.set_periodic_action (periodic callbacks). Each probe records the executing thread and keeps a "
              "per-agent table of threads currently inside a callback. Oracle: every probe fires on the thread named "
              "thread_<agent hosting the computation>; at no time are two different threads inside callbacks of the "
              "same agent. Perturbation: generated sys.setswitchinterval and micro-sleeps inside Messaging.post_msg. "
              "Interleavings are perturbed, not enumerated.")
LEVEL_NOTE = ("Trusted: the probes (a lock-protected table). A callback running off-thread is detected whenever it "
              "happens, whatever the interleaving; an actual overlap of two callbacks is only seen if the scheduler "
              "produces it during the run.")
RULE = ("case = DCOP + algorithm + run kind + perturbation; non-trivial = >=2 agents each hosting a computation and "
        ">=50 probed callbacks; distinct by sha1(case)")
ASSUMPTIONS = ["thread mode (all agents in this process)"]
BUDGET = {"quick": {"workers": 8, "examples": 6, "seconds": 35, "shrink_seconds": 40},
          "thorough": {"workers": 16, "examples": 150, "seconds": 1500, "shrink_seconds": 200}}

ALGOS = {"dpop": ({}, None), "dsa": ({"stop_cycle": 10}, None), "mgm2": ({"stop_cycle": 8}, None),
         "maxsum": ({}, 1.0), "amaxsum": ({}, 1.0), "adsa": ({"period": 0.1}, 1.2)}


@st.composite
def cases(draw):
    n = draw(st.integers(3, 5))
    edges = set()
    order = draw(st.permutations(list(range(n))))
    for i in range(1, n):
        edges.add(tuple(sorted((order[i], order[draw(st.integers(0, i - 1))]))))
    for _ in range(draw(st.integers(0, 2))):
        a, b = draw(st.integers(0, n - 1)), draw(st.integers(0, n - 1))
        if a != b:
            edges.add(tuple(sorted((a, b))))
    kind = draw(st.sampled_from(["solve", "solve", "solve", "resilient"]))
    return {"n": n, "edges": sorted(edges), "colors": draw(st.integers(2, 3)), "kind": kind,
            "algo": "dsa" if kind == "resilient" else draw(st.sampled_from(sorted(ALGOS))),
            "per_agent": 1 if kind == "resilient" else draw(st.integers(1, 2)),
            "k": draw(st.integers(1, 2)), "leaving": draw(st.integers(0, n - 1)),
            # the runtime's --delay option (seconds between deliveries of algorithm messages), off in most runs
            "delay": draw(st.sampled_from([None, None, None, 0.004])),
            # when metrics are collected (the runtime's --collect_on / --period options): on value change (default),
            # on cycle change, or periodically - a periodic action of every agent's management computation
            "collect": draw(st.sampled_from([None, None, ["cycle_change", None], ["period", 0.02], ["period", 0.2]])),
            "switch_us": draw(st.sampled_from([5, 50, 500, 5000])),
            "naps": draw(st.lists(st.sampled_from([0, 0, 0, 0, 1, 2, 5]), min_size=8, max_size=8)),
            "rng_seed": draw(st.integers(0, 10 ** 6))}


def case_strategy(tier):
    return cases()


class Probes:
    """Thread-identity and overlap recorder."""

    def __init__(self):
        self.lock = threading.Lock()
        self.inside = {}          # agent -> {thread name: depth}
        self.calls = 0
        self.off_thread = []      # (agent, computation, callback kind, thread name)
        self.overlaps = []        # (agent, computation, kind, thread, other threads)
        self.by_kind = {}

    def wrap(self, agent, comp, kind, fn):
        expected = "thread_" + agent
        probes = self

        def probed(*a, **k):
            me = threading.current_thread().name
            with probes.lock:
                probes.calls += 1
                probes.by_kind[kind] = probes.by_kind.get(kind, 0) + 1
                table = probes.inside.setdefault(agent, {})
                others = sorted(t for t, d in table.items() if d > 0 and t != me)
                if others and len(probes.overlaps) < 20:
                    probes.overlaps.append((agent, comp, kind, me, others))
                if me != expected and len(probes.off_thread) < 50:
                    probes.off_thread.append((agent, comp, kind, me))
                table[me] = table.get(me, 0) + 1
            try:
                return fn(*a, **k)
            finally:
                with probes.lock:
                    table[me] -= 1
        probed.__wrapped__ = fn
        return probed


# the two call sites of the listed finding C21-orchestrator-start-off-thread ("api-caller" is the harness thread that
# plays the role of the user's thread calling the run API)
KNOWN_OFF_THREAD = {("orchestrator", "_directory", "start", "api-caller"),
                    ("orchestrator", "_mgt_orchestrator", "start", "api-caller")}

PERIODIC_METHODS = ["send_metrics", "delayed_start", "tick"]
DISCOVERY_CALLBACKS = ["_cb_agent_registration", "_cb_computation_registration", "_cb_replica_registration",
                       "_on_agent_event"]


def run_case(case):
    import contextlib
    import io
    import random
    from . import c22
    n = case["n"]
    labels = ["kind:" + case["kind"], "algo:" + case["algo"]]
    nontrivial = False
    probes = Probes()
    holder = {}
    old_switch = sys.getswitchinterval()
    before_threads = set(threading.enumerate())
    agents_obj = []
    try:
        with under_test():
            import numpy
            from pydcop.algorithms import AlgorithmDef, load_algorithm_module
            from pydcop.dcop.dcop import DCOP
            from pydcop.dcop.objects import AgentDef, Domain, Variable
            from pydcop.dcop.relations import constraint_from_str
            from pydcop.dcop.scenario import DcopEvent, EventAction, Scenario
            from pydcop.distribution.objects import Distribution
            from pydcop.infrastructure import agents as agents_mod
            from pydcop.infrastructure.run import run_local_thread_dcop
            from importlib import import_module
            random.seed(case["rng_seed"])
            numpy.random.seed(case["rng_seed"] % (2 ** 32))
            dom = Domain("colors", "color", ["R", "G", "B"][:case["colors"]])
            vnames = ["v%d" % i for i in range(n)]
            variables = [Variable(v, dom) for v in vnames]
            dcop = DCOP("probe", "min")
            for i, (a, b) in enumerate(case["edges"]):
                dcop.add_constraint(constraint_from_str("c%d" % i, "10 if v%d == v%d else 0" % (a, b), variables))
            params, timeout = ALGOS[case["algo"]]
            if case["kind"] == "resilient":
                params, timeout = {"stop_cycle": 0}, None
            module = load_algorithm_module(case["algo"])
            cg = import_module("pydcop.computations_graph." + module.GRAPH_TYPE).build_computation_graph(dcop)
            comp_names = sorted(nd.name for nd in cg.nodes)
            per = case["per_agent"]
            na = (len(comp_names) + per - 1) // per + (1 if case["kind"] == "resilient" else 0)
            anames = ["a%d" % i for i in range(na)]
            dcop.add_agents([AgentDef(a, capacity=10000, default_hosting_cost=1) for a in anames])
            mapping = {}
            for i, c in enumerate(comp_names):
                mapping.setdefault(anames[i // per], []).append(c)
            distribution = Distribution(mapping)
            algo = AlgorithmDef.build_with_default_param(case["algo"], dict(params), mode="min")
            c22._install_perturbation()
        orig_add = agents_mod.Agent.add_computation
        orig_periodic = agents_mod.Agent.set_periodic_action

        def add_computation(self, computation, comp_name=None, publish=True):
            name = comp_name or computation.name
            if not getattr(computation, "_vf_probed", False):
                computation._vf_probed = True
                for meth in ("start", "on_message", "pause"):
                    setattr(computation, meth, probes.wrap(self.name, name, meth, getattr(computation, meth)))
                for meth in PERIODIC_METHODS:
                    # every method the code base registers as a periodic action: probed however it gets called
                    if hasattr(computation, meth):
                        setattr(computation, meth, probes.wrap(self.name, name, "periodic:" + meth,
                                                               getattr(computation, meth)))
                for meth in DISCOVERY_CALLBACKS:
                    if hasattr(computation, meth):
                        setattr(computation, meth, probes.wrap(self.name, name, "discovery:" + meth,
                                                               getattr(computation, meth)))
            if self not in agents_obj:
                agents_obj.append(self)
            return orig_add(self, computation, comp_name, publish)

        def set_periodic_action(self, period, cb):
            return orig_periodic(self, period, probes.wrap(self.name, getattr(cb, "__qualname__", "periodic"),
                                                           "periodic", cb))

        agents_mod.Agent.add_computation = add_computation
        agents_mod.Agent.set_periodic_action = set_periodic_action
        fatal = []
        phase = ["build"]
        errs = []
        try:
            sys.setswitchinterval(case["switch_us"] / 1e6)
            c22._patch_state["naps"] = list(case["naps"])

            def drive():
                try:
                    with under_test():
                        if case["kind"] == "solve":
                            col = case.get("collect")
                            kw = {"collect_moment": col[0], "period": col[1]} if col else {}
                            o = run_local_thread_dcop(algo, cg, distribution, dcop, 10000, delay=case.get("delay"), **kw)
                            holder["o"] = o
                            o.set_error_handler(lambda e: fatal.append(repr(e)[:300]))
                            phase[0] = "deploy"
                            o.deploy_computations()
                            phase[0] = "run"
                            o.run(timeout=timeout if timeout else 15)
                        else:
                            o = run_local_thread_dcop(algo, cg, distribution, dcop, 10000,
                                                      replication="dist_ucs_hostingcosts")
                            holder["o"] = o
                            o.set_error_handler(lambda e: fatal.append(repr(e)[:300]))
                            phase[0] = "deploy"
                            o.deploy_computations()
                            phase[0] = "replication"
                            o.start_replication(case["k"])
                            o.wait_ready()
                            phase[0] = "run"
                            leaving = anames[case["leaving"] % len(comp_names)]
                            sc = Scenario([DcopEvent("d0", delay=0.8),
                                           DcopEvent("e0", actions=[EventAction("remove_agent", agent=leaving)]),
                                           DcopEvent("d1", delay=2.0)])
                            o.run(sc, timeout=4.5)
                        phase[0] = "returned"
                except UnderTestError as e:
                    errs.append(e)

            with contextlib.redirect_stdout(io.StringIO()):
                th = threading.Thread(target=drive, daemon=True, name="api-caller")
                th.start()
                th.join(60)
        finally:
            c22._patch_state["naps"] = None
            sys.setswitchinterval(old_switch)
            agents_mod.Agent.add_computation = orig_add
            agents_mod.Agent.set_periodic_action = orig_periodic
        if errs:
            raise errs[0]
        hosting = sum(1 for a in mapping if mapping[a])
        nontrivial = hosting >= 2 and probes.calls >= 50
        labels.append("calls:%s" % ("<50" if probes.calls < 50 else "50-500" if probes.calls < 500 else "500+"))
        for kd in sorted(probes.by_kind):
            labels.append("probe:" + kd.split(":")[0])
        if th.is_alive():
            labels.append("inconclusive:stuck-in-" + phase[0])
        ctx = "%s run of %s on %d variables, distribution %r" % (case["kind"], case["algo"], n, mapping)
        if fatal:
            # An agent thread that dies is a defect of its own (the directory's un-registration echo, fixed in
            # 9f3bfa3 and pinned under C27, was found this way) but not a statement about which thread runs which
            # callback: counted, and the callbacks recorded until then are still checked below.
            labels.append("inconclusive:orchestrator-thread-died")
        # overlaps that involve only the two listed Orchestrator.start() call sites are part of that finding
        overlaps = [o for o in probes.overlaps
                    if not (o[0] == "orchestrator" and (o[3] == "api-caller" or "api-caller" in o[4]))]
        if overlaps:
            return Outcome(False, "two threads were inside callbacks of one agent at the same time: %r [%s]" % (
                overlaps[:3], ctx), nontrivial, labels, info={"kind": "overlap"})
        if probes.off_thread:
            distinct = sorted(set((a, c, k, t) for a, c, k, t in probes.off_thread))
            unlisted = [d for d in distinct if d not in KNOWN_OFF_THREAD]
            return Outcome(False, "callbacks executed off their agent's thread: %r [%s]" % (
                (unlisted or distinct)[:6], ctx), nontrivial, labels,
                info={"kind": "off-thread", "sites": [list(d) for d in distinct]})
        return Outcome(True, "", nontrivial, labels, info={"calls": probes.calls})
    except UnderTestError as e:
        return Outcome(False, "raised %s at %s" % (e, e.frame), nontrivial, labels,
                       info={"kind": "raised", "exc": e.exc_type, "frame": e.frame})
    finally:
        sys.setswitchinterval(old_switch)
        o = holder.get("o")
        if o is not None:
            try:
                for t in ("_timeout_timer", "_event_timer"):
                    if getattr(o, t, None) is not None:
                        getattr(o, t).cancel()
                o.stop_agents(5)
                o.stop()
            except Exception:
                pass
        for a in agents_obj:
            try:
                a.stop()
            except Exception:
                pass
        deadline = time.time() + 8
        while time.time() < deadline:
            if not [t for t in threading.enumerate() if t not in before_threads and t.is_alive()]:
                break
            time.sleep(0.05)


def classify(case, out):
    info = out.info or {}
    if info.get("kind") == "off-thread":
        known = KNOWN_OFF_THREAD
        sites = set(tuple(s) for s in info.get("sites", []))
        # Orchestrator.start() runs the directory and management computations from its caller's thread while the
        # orchestrator's own agent thread is already running; any other off-thread callback is not this finding
        if sites and sites <= known:
            return "C21-orchestrator-start-off-thread"
    return None
