"""C02  SyncBB finds the optimum of every binary-constraint DCOP."""
import random

from hypothesis import strategies as st

from .. import build, gen, oracles, simnet
from ..run import Outcome, UnderTestError, under_test

PROPERTY = "C02"
LEVEL = "exploration"
TECHNIQUE = ("property-based testing (Hypothesis): generated binary DCOPs x generated start/delivery schedules on "
             "SimNet, oracle = brute-force optimum")
LEVEL_TEXT = ("SyncBB computations built on the real ordered graph are driven by SimNet under generated start orders "
              "and FIFO delivery orders. DCOPs: 1-5 variables, domains of 1-3 values (int and str), only binary "
              "constraints (matrix and expression), constraint-free variables allowed, min and max. Oracle: quiescence "
              "with every computation finished exactly once (terminate reached everybody), all values in domain and "
              "the independent cost of the held assignment == brute-force optimum. Sampling, not exhaustive.")
LEVEL_NOTE = ("Trusted: SimNet FIFO model, brute-force oracle. Costs are non-negative in min mode (branch-and-bound "
              "prunes on partial sums, which presupposes costs >= 0); plain variables without own costs and no unary "
              "constraints (the module documents binary constraints only).")
RULE = ("case = binary DCOP + schedule + seed; non-trivial = >=3 variables, >=2 constraints and >=1 backward message "
        "observed before the last one; distinct by sha1(case)")
ASSUMPTIONS = ["costs >= 0 for min objective", "binary constraints only, no variable costs"]
BUDGET = {"quick": {"workers": 8, "examples": 800, "seconds": 40},
          "thorough": {"workers": 16, "examples": 24000, "seconds": 600}}


@st.composite
def cases(draw):
    desc = draw(gen.dcops(min_vars=1, max_vars=5, max_dom=3, max_constraints=6, arities=(2,), var_costs=False,
                          costs=gen.small_int_costs, nonneg_min=True))
    if draw(st.integers(0, 5)) == 0 and all(c["kind"] == "matrix" for c in desc["constraints"]):
        # integer costs on an offset of 2^53: exact as ints, no longer distinguishable once turned into floats

        def lift(t):
            return [lift(x) for x in t] if isinstance(t, list) else t + 2 ** 53
        for c in desc["constraints"]:
            c["table"] = lift(c["table"])
    elif draw(st.integers(0, 5)) == 0 and all(c["kind"] == "matrix" for c in desc["constraints"]):
        # costs on a 0.1 grid: decimal fractions whose sums differ in the last bits (0.1 + 0.2 vs 0.3)

        def tenth(t):
            return [tenth(x) for x in t] if isinstance(t, list) else abs(t) / 10
        for c in desc["constraints"]:
            c["table"] = tenth(c["table"])
    return {"dcop": desc, "schedule": draw(gen.schedules(40)), "algo_seed": draw(st.integers(0, 100))}


def case_strategy(tier):
    return cases()


def run_case(case):
    desc = case["dcop"]
    labels = gen.dcop_labels(desc) + ["nvars:%d" % len(desc["variables"])]
    names = [v["name"] for v in desc["variables"]]
    best, args, worst = oracles.brute_force(desc)
    try:
        random.seed(case["algo_seed"])
        with under_test():
            dcop, _, _ = build.build_dcop(desc)
            graph, comps = simnet.build_computations(dcop, "ordered_graph", "syncbb")
        net = simnet.SimNet(case["schedule"], max_steps=20000)
        for c in comps.values():
            net.add(c)
        net.run()
        labels.append(net.schedule_label())
        backward = sum(1 for s in net.sent if s[4] == "backward")
        nontrivial = len(names) >= 3 and len(desc["constraints"]) >= 2 and backward >= 2
        info = {"steps": net.step, "backward": backward}
        if net.errors:
            return Outcome(False, "handler raised: %r" % (net.errors[0],), nontrivial, labels, info=info)
        if net.undeliverable:
            return Outcome(False, "message posted to unknown computation %r" % (net.undeliverable[0],),
                           nontrivial, labels, info=dict(info, undeliverable=True))
        if net.bound_hit:
            return Outcome(False, "no termination within %d steps" % net.max_steps, nontrivial, labels, info=info)
        if net.pending():
            return Outcome(False, "%d messages undelivered at quiescence" % net.pending(), nontrivial, labels)
        first = sorted(names)[0]
        bad = {n: net.finished[n] for n in names if net.finished[n] != 1}
        if bad:
            return Outcome(False, "quiescent but finished() counts are %r (first computation: %s)" % (bad, first),
                           nontrivial, labels, info=info)
        a = {}
        for n in names:
            val = comps[n].current_value
            if val not in oracles.domain_of(desc, n):
                return Outcome(False, "value %r of %s not in its domain at termination" % (val, n), nontrivial, labels,
                               info=dict(info, unset=val is None))
            a[n] = val
        cost = oracles.total_cost(desc, a)
        if not oracles.close(cost, best):
            return Outcome(False, "cost %r of held assignment %r != optimum %r (%s)" % (cost, a, best, desc["objective"]),
                           nontrivial, labels, info=dict(info, phase="optimum"))
    except UnderTestError as e:
        return Outcome(False, "raised %s at %s" % (e, e.frame), True, labels, info={"exc": e.exc_type})
    return Outcome(True, "", nontrivial, labels, info=info)
