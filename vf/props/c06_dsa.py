"""C06 target "dsa": DSA / A-DSA / dsatuto only ever move to a best-response value.

Protocol-level bookkeeping (no private fields): the neighbour values a computation evaluates are read from
SimNet's log of posted / delivered messages:
  * DSA      evaluation k (cycle_count == k at selection time) uses the (k+1)-th dsa_value message of each neighbour;
  * dsatuto  round cid (= cycle_count - 1 inside on_new_cycle) uses the message each neighbour stamped with cid;
  * A-DSA    a tick uses the last value delivered from each neighbour before the tick.
"""
from hypothesis import strategies as st

from .. import gen, localsearch, oracles
from ..run import Outcome, UnderTestError


@st.composite
def cases(draw):
    algo = draw(st.sampled_from(["dsa", "dsa", "adsa", "dsatuto"]))
    desc = draw(gen.dcops(min_vars=2, max_vars=5, min_dom=1, max_dom=3, max_constraints=6, min_constraints=1,
                          arities=(1, 2, 2, 3), var_costs=True, costs=gen.mixed_costs,
                          objectives=("min",) if algo == "dsatuto" else ("min", "max")))
    if draw(st.integers(0, 5)) == 0:
        # all extensional costs on an offset of 2^33 (and variable cost tables too): best responses then differ by a
        # few units out of ~10^10, far below any relative tolerance
        def lift(t):
            return [lift(x) for x in t] if isinstance(t, list) else (t + 2 ** 33 if isinstance(t, int) else t)
        for c in desc["constraints"]:
            if c["kind"] == "matrix":
                c["table"] = lift(c["table"])
        for v in desc["variables"]:
            if v.get("cost") and v["cost"]["kind"] == "dict":
                v["cost"]["costs"] = lift(v["cost"]["costs"])
    params = {}
    if algo == "dsa":
        params = {"variant": draw(st.sampled_from(["A", "B", "C"])), "p_mode": draw(st.sampled_from(["fixed", "arity"])),
                  "probability": draw(st.sampled_from([0.3, 0.7, 1.0])), "stop_cycle": draw(st.integers(3, 8))}
    elif algo == "adsa":
        params = {"variant": draw(st.sampled_from(["A", "B", "C"])), "probability": draw(st.sampled_from([0.5, 1.0])),
                  "period": 0.1}
    return {"target": "dsa", "algo": algo, "dcop": desc, "params": params, "schedule": draw(gen.schedules(120)),
            "seed": draw(st.integers(0, 10000))}


def best_response(desc, x, others):
    mode = desc["objective"]
    xv = oracles.var_desc(desc, x)
    cons = [c for c in desc["constraints"] if x in c["scope"]]
    vals = []
    for v in oracles.domain_of(desc, x):
        a = dict(others, **{x: v})
        vals.append((v, sum(oracles.constraint_value(desc, c, a) for c in cons) + oracles.var_cost(desc, xv, v)))
    best = (min if mode == "min" else max)(c for _, c in vals)
    return [v for v, c in vals if c == best], best


def run_case(case):
    desc, algo = case["dcop"], case["algo"]
    labels = ["dsa-family", "algo:" + algo, "obj:" + desc["objective"]]
    if algo == "dsa":
        labels.append("variant:" + case["params"]["variant"])
    nb = oracles.neighbours(desc)
    moves = []   # (computation, step, new value, neighbour assignment used or None, note)
    try:
        def prep(r):
            net = r.net
            net.trace = []
            first = set()
            for name, c in r.comps.items():
                def on_sel(val, cost, cycle, _n=name, _c=c):
                    if _n not in first:
                        first.add(_n)
                        return  # the first selection of a computation is its initial (random) value
                    if not nb[_n]:
                        return
                    others = None
                    msgs = [(seq, src, m) for seq, st_, src, dst, m, cyc in net.trace
                            if dst == _n and getattr(m, "type", "") in ("dsa_value", "adsa_value")]
                    if algo == "dsa":
                        per = {}
                        for seq, src, m in msgs:
                            per.setdefault(src, []).append(m.value)
                        if all(len(per.get(s, [])) > cycle for s in nb[_n]):
                            others = {s: per[s][cycle] for s in nb[_n]}
                    elif algo == "dsatuto":
                        cid = cycle - 1
                        per = {src: m.value for seq, src, m in msgs if getattr(m, "cycle_id", None) == cid}
                        if all(s in per for s in nb[_n]):
                            others = {s: per[s] for s in nb[_n]}
                    else:
                        lastv = {}
                        for step, src, dst, seq, m in net.delivered:
                            if dst == _n and getattr(m, "type", "") == "adsa_value":
                                lastv[src] = m.value
                        if all(s in lastv for s in nb[_n]):
                            others = {s: lastv[s] for s in nb[_n]}
                    moves.append((_n, net.step, val, others))
                c._on_value_selection = on_sel

        # SimNet exposes the kind of the action being run through step_kind (set below)
        r = localsearch.run_algo(desc, algo, case["params"], case["schedule"], case["seed"],
                                 max_steps=4000 if algo != "dsa" else 60000,
                                 tick_budget=40 if algo == "adsa" else 0, before_run=prep)
        net = r.net
        labels.append(net.schedule_label())
        real_moves = [m for m in moves]
        nontrivial = bool(real_moves)
        if real_moves:
            labels.append("moved")
        if net.errors:
            return Outcome(False, "%s: handler raised %r" % (algo, net.errors[0]), nontrivial, labels,
                           info={"phase": "raise"})
        for name, step, val, others in real_moves:
            if val not in oracles.domain_of(desc, name):
                return Outcome(False, "%s: %s selected %r, not in its domain" % (algo, name, val), nontrivial, labels,
                               info={"phase": "domain"})
            if others is None:
                return Outcome(False, "%s: %s changed value at step %d before having a value from every neighbour" % (
                    algo, name, step), nontrivial, labels, info={"phase": "premature"})
            ref, best = best_response(desc, name, others)
            if val not in ref:
                return Outcome(False, "%s(%s): %s moved to %r at step %d; best responses to %r are %r (cost %r)" % (
                    algo, desc["objective"], name, val, step, others, ref, best), nontrivial, labels,
                    info={"phase": "move", "var": name})
    except UnderTestError as e:
        return Outcome(False, "raised %s at %s" % (e, e.frame), True, labels, info={"exc": e.exc_type})
    return Outcome(True, "", nontrivial, labels, info={"moves": len(real_moves)})
