"""C06 target "dsa" (SimNet) -- filled in once SimNet exists."""
from hypothesis import strategies as st


def cases():
    return st.nothing()


def run_case(case):
    raise NotImplementedError
