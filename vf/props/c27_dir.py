"""C27 target "dirsim": the directory side of a re-hosting, on SimNet.

What the discovery layer sees of a repair is small: the departed host H un-publishes the computation under its own
name (Agent._on_stop / remove_computation) and the selected agent N publishes it (Agent.add_computation), from two
different threads, so the two publications, the directory's notifications and whatever the directory posts to itself
can be handled in any order that keeps each channel FIFO.  Whatever the order, once everything is delivered the
directory must name N as the host (C27: "hosted in the directory ... by exactly one surviving agent") and every
surviving agent subscribed to the computation - N itself included, it usually is a neighbour - must see N.

The real Directory / Discovery objects are driven; only the transport is the harness's.
"""
from hypothesis import strategies as st

from .. import simnet
from ..run import Outcome, UnderTestError, under_test


@st.composite
def cases(draw):
    na = draw(st.integers(3, 5))
    nc = draw(st.integers(1, 3))
    comps = []
    for c in range(nc):
        host = draw(st.integers(0, na - 1))
        subs = draw(st.lists(st.integers(0, na - 1), max_size=3, unique=True))
        comps.append({"host": host, "subs": subs})
    # operations: ("move", comp, new agent, who acts first) | ("deliver", how many, pick) | ("drain",)
    # One removal event re-hosts each computation at most once; the next event comes seconds later (the orchestrator
    # waits for the repair to be reported done and scenario events are spaced), i.e. after a full drain.
    ops = []
    gone = set()
    hosts = [c["host"] for c in comps]
    for _ in range(draw(st.integers(1, 3))):
        moved = draw(st.lists(st.integers(0, nc - 1), min_size=1, max_size=nc, unique=True))
        leaving = {hosts[ci] for ci in moved}
        for ci in moved:
            cands = [a for a in range(na) if a not in leaving and a not in gone]
            if not cands:
                continue
            new = draw(st.sampled_from(cands))
            ops.append(["move", ci, new, draw(st.sampled_from(["old-first", "new-first"]))])
            hosts[ci] = new
            d = draw(st.sampled_from([None, None, (1, 0), (2, 1), (3, 5)]))
            if d:
                ops.append(["deliver", d[0], draw(st.integers(0, 1000)) if d[1] else 0])
        gone |= leaving
        # replica publications of surviving agents for computations that do not move in this event (replication is
        # re-run after every repair): publish / withdraw / publish again, with deliveries in between
        for ci in [c for c in range(nc) if c not in moved]:
            for a in draw(st.lists(st.sampled_from([x for x in range(na) if x not in gone] or [0]), max_size=2,
                                   unique=True)):
                if a in gone:
                    continue
                for pub in draw(st.sampled_from([[True], [True, False], [True, False, True], [False, True]])):
                    ops.append(["replica", ci, a, pub])
                    if draw(st.integers(0, 2)) == 0:
                        ops.append(["deliver", draw(st.integers(1, 3)), draw(st.integers(0, 1000))])
        ops.append(["drain"])
    return {"kind": "dirsim", "agents": na, "comps": comps, "ops": ops,
            "picks": draw(st.lists(st.integers(0, 1000), max_size=40))}


def run_case(case):
    na = case["agents"]
    anames = ["a%d" % i for i in range(na)]
    cnames = ["v%d" % i for i in range(len(case["comps"]))]
    labels = ["dirsim", "moves:%d" % sum(1 for o in case["ops"] if o[0] == "move"),
              "replica-ops:%d" % min(4, sum(1 for o in case["ops"] if o[0] == "replica"))]
    try:
        with under_test():
            from pydcop.infrastructure.discovery import Directory, Discovery
            net = simnet.SimNet([], max_steps=50000)
            ddisc = Discovery("D", "addr_D")
            directory = Directory(ddisc)
            net.add(directory.directory_computation)
            net.add(ddisc.discovery_computation)
            ddisc.use_directory("D", "addr_D")
            disc = {}
            for a in anames:
                disc[a] = Discovery(a, "addr_" + a)
                net.add(disc[a].discovery_computation)
                disc[a].use_directory("D", "addr_D")
            for c in net.comps.values():
                c.start()
            net.started = list(net.comps)
        picks = list(case["picks"])
        overtaken = [False]

        def deliver(n, pick=None):
            for i in range(n):
                acts = net.enabled(False)
                if not acts:
                    return
                p = pick if pick is not None else (picks.pop(0) if picks else 0)
                if len(acts) > 1 and p % len(acts):
                    overtaken[0] = True
                net.step += 1
                net._run_action(acts[(p + (i * 7 if pick is not None else 0)) % len(acts)])

        def drain():
            for _ in range(100):
                if not net.pending():
                    return
                deliver(500)

        with under_test():
            for a in anames:
                disc[a].register_agent(a, "addr_" + a)
        drain()
        host = {}
        with under_test():
            for cn, c in zip(cnames, case["comps"]):
                h = anames[c["host"]]
                disc[h].register_computation(cn, h, "addr_" + h)
                host[cn] = h
        drain()
        # an agent that will hold a replica of a computation knows that computation (every caller in the code base
        # makes sure of it): it subscribes to it, like the declared subscribers
        subs_of = [list(c["subs"]) for c in case["comps"]]
        for o in case["ops"]:
            if o[0] == "replica" and o[2] not in subs_of[o[1]]:
                subs_of[o[1]].append(o[2])
        with under_test():
            for cn, subs in zip(cnames, subs_of):
                for s in subs:
                    disc[anames[s]].subscribe_computation(cn)
        drain()
        departed = set()
        holds = {}          # computation -> {agent: last replica operation was a publication}
        for o in case["ops"]:
            if o[0] == "deliver":
                deliver(o[1], o[2] if o[2] else None)
                continue
            if o[0] == "drain":
                drain()
                continue
            if o[0] == "replica":
                cn, a = cnames[o[1]], anames[o[2]]
                with under_test():
                    if o[3]:
                        disc[a].register_replica(cn, a)
                    else:
                        disc[a].unregister_replica(cn, a)
                holds.setdefault(cn, {})[a] = bool(o[3])
                continue
            cn, new = cnames[o[1]], anames[o[2]]
            old = host[cn]

            def leave():
                with under_test():
                    disc[old].unregister_computation(cn, old)

            def take():
                with under_test():
                    disc[new].register_computation(cn, new, "addr_" + new)
            for f in ((leave, take) if o[3] == "old-first" else (take, leave)):
                f()
                deliver(1)
            departed.add(old)
            host[cn] = new
        drain()
        nontrivial = overtaken[0]
        if net.errors:
            return Outcome(False, "[dirsim] a discovery handler raised: %r" % (net.errors[0][2:5],), nontrivial, labels,
                           info={"kind": "dirsim"})
        for cn, subs in zip(cnames, subs_of):
            try:
                with under_test():
                    got = directory.computation_agent(cn)
            except UnderTestError as e:
                got = "<%s>" % e.exc_type
            if got != host[cn]:
                return Outcome(False, "[dirsim] %s was re-hosted on %s (its former host un-published it under its own "
                               "name) but once every message is delivered the directory says %s" % (cn, host[cn], got),
                               nontrivial, labels, info={"kind": "dirsim", "side": "directory"})
            exp = sorted(a for a, h in holds.get(cn, {}).items() if h)
            try:
                with under_test():
                    got = sorted(ddisc.replica_agents(cn))
            except UnderTestError as e:
                got = "<%s>" % e.exc_type
            if got != exp:
                return Outcome(False, "[dirsim] replicas of %s: the last publications of the agents leave %r, the "
                               "directory says %r" % (cn, exp, got), nontrivial, labels,
                               info={"kind": "dirsim", "side": "replicas"})
            for s in subs:
                a = anames[s]
                if a in departed:
                    continue
                try:
                    with under_test():
                        got = disc[a].computation_agent(cn)
                except UnderTestError as e:
                    got = "<%s>" % e.exc_type
                if got != host[cn]:
                    return Outcome(False, "[dirsim] %s is subscribed to %s, re-hosted on %s: its view says %s" % (
                        a, cn, host[cn], got), nontrivial, labels, info={"kind": "dirsim", "side": "view"})
    except UnderTestError as e:
        return Outcome(False, "[dirsim] raised %s at %s" % (e, e.frame), True, labels, info={"exc": e.exc_type})
    return Outcome(True, "", nontrivial, labels)
