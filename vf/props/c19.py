"""C19  Messages held across start or pause keep their original order."""
from hypothesis import strategies as st

from ..run import Outcome, UnderTestError, under_test

PROPERTY = "C19"
LEVEL = "exploration"
TECHNIQUE = ("model-based property testing (Hypothesis): generated histories of receive/post/start/pause/resume/pump "
             "on a real computation + real agent message queue, checked against a sequence model")
LEVEL_TEXT = ("A real MessagePassingComputation hosted on a real (not threaded) Agent, so that re-injection goes "
              "through the agent's real priority queue, is driven by generated operation histories: messages arriving "
              "from 1-3 senders, posts to a recording peer, start, pause, resume and pumping the queue the way "
              "Agent._run does. Model: every received message is handled exactly once, in the order of first "
              "reception by the computation; every posted message (two targets, several priorities) is handed to the agent's messaging exactly once, in posting order, with its priority. "
              "Histories up to 40 operations; sampling, not exhaustive.")
LEVEL_NOTE = ("Trusted: the 20-line sequence model in this file. The agent's thread is not started; the harness pumps "
              "Messaging.next_msg -> Agent._handle_message itself (same calls as Agent._run).")
RULE = ("case = list of operations; non-trivial = a start or resume that re-injects >=2 buffered messages, or a "
        "resume that flushes >=2 posts; distinct by sha1(case)")
ASSUMPTIONS = ["single agent; no concurrent thread touches the queue (thread interleavings belong to C18/C21)"]
BUDGET = {"quick": {"workers": 8, "examples": 2500, "seconds": 40},
          "thorough": {"workers": 16, "examples": 30000, "seconds": 480}}

op = st.one_of(
    st.tuples(st.just("recv"), st.integers(0, 2)),
    st.tuples(st.just("recv"), st.integers(0, 2)),
    st.tuples(st.just("post"), st.integers(0, 5)),
    st.tuples(st.just("post"), st.integers(0, 5)),
    st.tuples(st.just("start"), st.just(0)),
    st.tuples(st.just("pause"), st.just(0)),
    st.tuples(st.just("resume"), st.just(0)),
    st.tuples(st.just("pump"), st.integers(1, 4)),
)


# (target, priority) of a post; None = default priority
POSTS = [("peer", None), ("peer", None), ("peer2", None), ("peer", 20), ("peer2", 15), ("peer", 5)]


def case_strategy(tier):
    return st.lists(op, min_size=1, max_size=40).map(lambda l: {"ops": [list(o) for o in l]})


def predict_rebuffered_order(ops):
    """Handling order the listed finding C19-rebuffer-reorder predicts for a history: messages that cannot be handled
    are kept first-in first-out, start() and pause(False) put the kept ones back into the agent's (type, arrival) queue
    with type 19 - even if the computation still cannot handle them - and a message that comes back is kept again, at
    the end.  (A model of the defect, used only to tell this finding from any other mis-ordering.)"""
    q, seq = [], [0]
    state = {"running": False, "paused": False, "started": False}
    kept, kept_posts, handled = [], [], []
    counter = 0

    def put(prio, dest, key):
        seq[0] += 1
        q.append((20 if prio is None else prio, seq[0], dest, key))

    def reinject():
        for key in kept:
            put(19, "c", key)
        del kept[:]

    def pump(n):
        for _ in range(n):
            if not q:
                return False
            item = min(q)
            q.remove(item)
            if item[2] == "c":
                (handled if state["running"] and not state["paused"] else kept).append(item[3])
        return True

    def start():
        state["started"] = state["running"] = True
        reinject()

    def resume():
        state["paused"] = False
        for target, prio in kept_posts:
            put(prio, target, None)
        del kept_posts[:]
        reinject()

    for kind, arg in ops:
        if kind == "recv":
            counter += 1
            put(None, "c", ["s%d" % arg, counter])
        elif kind == "post":
            counter += 1
            target, prio = POSTS[arg]
            if state["paused"]:
                kept_posts.append((target, prio))
            else:
                put(prio, target, None)
        elif kind == "start" and not state["started"]:
            start()
        elif kind == "pause":
            state["paused"] = True
        elif kind == "resume" and state["paused"]:
            resume()
        elif kind == "pump":
            pump(arg)
    if not state["started"]:
        start()
    if state["paused"]:
        resume()
    while pump(500):
        pass
    return handled


def classify(case, out):
    """Known finding: order is lost only in histories where a re-injected message is buffered a second time
    (start while paused, or pause/resume while re-injected messages are still queued), and then exactly in the way
    the finding describes (predict_rebuffered_order); any other order is not this finding."""
    if out.info.get("side") == "recv" and out.info.get("rebuffered"):
        if out.info.get("handled") == predict_rebuffered_order([tuple(o) for o in case["ops"]]):
            return "C19-rebuffer-reorder"
    return None


def run_case(case):
    ops = case["ops"]
    labels = []
    try:
        with under_test():
            from pydcop.infrastructure.agents import Agent
            from pydcop.infrastructure.communication import InProcessCommunicationLayer
            from pydcop.infrastructure.computations import Message, MessagePassingComputation, register

            class Rec(MessagePassingComputation):
                def __init__(self, name):
                    super().__init__(name)
                    self.handled = []

                @register("m")
                def _on_m(self, sender, msg, t):
                    self.handled.append((sender, msg.content))

            agent = Agent("a1", InProcessCommunicationLayer())
            c, peer, peer2 = Rec("c"), Rec("peer"), Rec("peer2")
            senders = [Rec("s%d" % i) for i in range(3)]
            # observe what the computation really hands to the agent's messaging, in order
            real_post = agent._messaging.post_msg
            wire = []

            def post_spy(src, dst, msg, msg_type=None, on_error=None):
                if src == "c" and dst != "c":
                    wire.append((dst, getattr(msg, "content", None), msg_type))
                return real_post(src, dst, msg, msg_type, on_error)

            agent._messaging.post_msg = post_spy
            for x in [c, peer, peer2] + senders:
                agent.add_computation(x, publish=False)
            peer.start()
            peer2.start()
        received = []  # first reception order at c (model input)
        orig_on_message = c.on_message

        rebuffered = [0]

        def spy(sender, msg, t):
            if msg.type == "m":
                if (sender, msg.content) not in received:
                    received.append((sender, msg.content))
                elif c.is_paused or not c.is_running:
                    # a message that start()/pause(False) re-injected comes back while the computation
                    # still (or again) cannot handle it: it is buffered a second time
                    rebuffered[0] += 1
            return orig_on_message(sender, msg, t)

        c.on_message = spy
        posted = []
        counter = [0]
        started = False
        max_reinject, max_flush = 0, 0

        def pump(n):
            for _ in range(n):
                with under_test():
                    full, t = agent._messaging.next_msg(0)
                    if full is None:
                        return False
                    sender, dest, msg, _ = full
                    agent._handle_message(sender, dest, msg, t)
            return True

        for kind, arg in ops:
            if kind == "recv":
                counter[0] += 1
                with under_test():
                    agent._messaging.post_msg("s%d" % arg, "c", Message("m", counter[0]))
            elif kind == "post":
                counter[0] += 1
                target, prio = POSTS[arg]
                posted.append((target, counter[0], prio))
                with under_test():
                    if prio is None:
                        c.post_msg(target, Message("m", counter[0]))
                    else:
                        c.post_msg(target, Message("m", counter[0]), prio)
            elif kind == "start":
                if not started:
                    started = True
                    max_reinject = max(max_reinject, len(c._paused_messages_recv))
                    with under_test():
                        c.start()
            elif kind == "pause":
                if not c.is_paused:  # Agent.pause_computations skips already paused computations
                    with under_test():
                        c.pause(True)
            elif kind == "resume":
                if c.is_paused:  # Agent.unpause_computations only resumes paused computations
                    max_reinject = max(max_reinject, len(c._paused_messages_recv))
                    max_flush = max(max_flush, len(c._paused_messages_post))
                    with under_test():
                        c.pause(False)
            elif kind == "pump":
                pump(arg)
        # final: start, resume and drain
        if not started:
            max_reinject = max(max_reinject, len(c._paused_messages_recv))
            with under_test():
                c.start()
        if c.is_paused:
            max_reinject = max(max_reinject, len(c._paused_messages_recv))
            max_flush = max(max_flush, len(c._paused_messages_post))
            with under_test():
                c.pause(False)
        for _ in range(20):
            if not pump(500):
                break
        nontrivial = max_reinject >= 2 or max_flush >= 2
        labels.append("reinject:%d" % min(max_reinject, 3))
        labels.append("flush:%d" % min(max_flush, 3))
        info = {"received": len(received), "posted": len(posted), "rebuffered": rebuffered[0]}
        if rebuffered[0]:
            labels.append("rebuffered")
        n_recv = sum(1 for k, _ in ops if k == "recv")
        if len(received) != n_recv:
            return Outcome(False, "%d messages sent to the computation but %d reached it" % (n_recv, len(received)),
                           nontrivial, labels, info=info)
        if c.handled != received:
            dup = len(c.handled) != len(set(c.handled))
            return Outcome(False, "handled order %r != reception order %r%s" % (
                [p for _, p in c.handled], [p for _, p in received], " (duplicates)" if dup else ""),
                nontrivial, labels, info=dict(info, side="recv", handled=[[s, p] for s, p in c.handled]))
        if wire != posted:
            return Outcome(False, "messages handed to the agent (target, payload, priority) %r, posting order was %r" % (
                wire, posted), nontrivial, labels, info=dict(info, side="post"))
        got = sorted(p for _, p in peer.handled + peer2.handled)
        if got != sorted(p for _, p, _ in posted):
            return Outcome(False, "peers handled payloads %r, posted %r" % (got, sorted(p for _, p, _ in posted)),
                           nontrivial, labels, info=dict(info, side="post"))
    except UnderTestError as e:
        return Outcome(False, "raised %s at %s" % (e, e.frame), True, labels, info={"exc": e.exc_type})
    return Outcome(True, "", nontrivial, labels, info=info)
