"""C25  Replica placement terminates and keeps replicas safe."""
import itertools

from hypothesis import strategies as st

from .. import gen, simnet
from ..run import Outcome, UnderTestError, under_test

PROPERTY = "C25"
LEVEL = "exploration"
TECHNIQUE = ("property-based testing (Hypothesis): generated deployments (agents, hosted computations, neighbour graph, "
             "capacities, costs, k) x generated FIFO delivery schedules of the replication protocol on a deterministic "
             "in-harness network; oracle = quiescence with every replication_done fired + placement invariants + an "
             "independent ledger re-computing the acceptance bound at every acceptance")
LEVEL_TEXT = ("3-6 agents share one process (as in thread mode): each has a real Discovery wired to a real Directory "
              "through SimNet, a real UCSReplication built by build_replication_computation exactly as ResilientAgent "
              "does, and hosts 0-2 computations of a generated neighbour graph; capacities from 'own load only' to "
              "ample, hosting costs, one common default route and symmetric specific routes, footprints, k in 1..3. "
              "replicate(k) is called on the agents in a generated order interleaved with deliveries; every delivery "
              "choice is a generated value (per-channel FIFO is the only ordering guarantee). Oracle: the run becomes "
              "quiescent with no handler exception and no message left; replication_done fired on every agent; for "
              "every computation the reported hosts are distinct agents other than its owner, at most k, each holds "
              "the replica (hosted_replicas) and is recorded in the directory and in the host's discovery; reported "
              "hosts == agents that accepted (harness ledger); and at every acceptance (wrapped _accept_replica) the "
              "acceptor's capacity minus the footprint of its own computations covers the new footprint plus the "
              "largest total footprint of the replicas it already holds for any k-1 owners, recomputed from the "
              "ledger; agents may host a computation the replication computation was never told about. Sampling of "
              "deployments x schedules.")
LEVEL_NOTE = ("Trusted: SimNet's per-channel FIFO model, the ledger arithmetic in this file. Route tables are symmetric "
              "(the protocol adds route(a,b) on requests and subtracts route(b,a) on answers and asserts spent >= 0; "
              "the YAML loader only produces symmetric tables). Messages are passed by reference, as the in-process "
              "transport does. Liveness is bounded: 'quiescent with done everywhere within 20000 deliveries' (the "
              "longest of 8000 measured runs on the reference tree took 533); a run still exchanging messages at the "
              "bound is reported as non-termination.")
RULE = ("case = deployment + k + call order + schedule; non-trivial = >=2 computations replicated, at least one "
        "acceptance and at least one agent whose capacity cannot take every replica offered (a rejection or a tight "
        "bound); distinct by sha1(case)")
ASSUMPTIONS = ["symmetric route tables with one common default", "all agents in one process (thread mode)"]
BUDGET = {"quick": {"workers": 8, "examples": 500, "seconds": 45},
          "thorough": {"workers": 16, "examples": 16000, "seconds": 900}}

# mixed case: the paths table is a sorted list of (cost, path) and "__hosting__" sorts between upper and lower case
AGENTS = ["a1", "A2", "a10", "B", "a_1", "Z3"]
COMPS = ["c1", "c2", "c10", "v_1", "x", "f_12", "y", "c3", "w", "v2", "z", "c11"]
# includes non-dyadic decimals: budgets are added and subtracted along the paths (the code compares with a tolerance)
NUM = st.sampled_from([0, 1, 2, 3, 5, 0.5, 10, 1.5, 0.1, 0.2, 0.3])


@st.composite
def cases(draw):
    na = draw(st.integers(3, 6))
    hosted = [draw(st.integers(0, 2)) if draw(st.integers(0, 5)) == 0 else draw(st.integers(1, 2)) for _ in range(na)]
    owner = []
    for a, n in enumerate(hosted):
        owner += [a] * n
    nc = len(owner)
    fps = [draw(st.sampled_from([1, 2, 3, 5, 8, 2.5])) for _ in range(nc)]
    edges = set()
    if nc >= 2:
        order = draw(st.permutations(list(range(nc))))
        # mostly connected: a spanning chain, then extra edges
        for i in range(1, nc):
            if draw(st.integers(0, 9)) > 0:
                j = draw(st.integers(0, i - 1))
                edges.add(tuple(sorted((order[i], order[j]))))
        for _ in range(draw(st.integers(0, nc))):
            i, j = draw(st.integers(0, nc - 1)), draw(st.integers(0, nc - 1))
            if i != j:
                edges.add(tuple(sorted((i, j))))
    own_load = [sum(fps[c] for c in range(nc) if owner[c] == a) for a in range(na)]
    cap_mode = draw(st.sampled_from(["ample", "tight", "tight", "mixed"]))
    agents = []
    for a in range(na):
        extra = {"ample": 1000, "tight": draw(st.sampled_from([0, 1, 3, 5, 8, 12, 20])),
                 "mixed": draw(st.sampled_from([0, 4, 10, 1000]))}[cap_mode]
        # a hosted computation the replication computation was never told about (ResilientAgent does not hand over
        # repair computations, named B...): it uses capacity like any other one
        side = draw(st.sampled_from([0, 0, 0, 2, 4])) if cap_mode != "ample" else 0
        agents.append({"capacity": own_load[a] + side + extra, "unregistered_footprint": side,
                       "default_hosting_cost": draw(NUM),
                       "hosting": draw(st.lists(st.tuples(st.integers(0, 11), NUM), max_size=3)),
                       "routes": {}})
    default_route = draw(st.sampled_from([1, 1, 2, 0.5, 3, 0.2]))
    for i in range(na):
        for j in range(i + 1, na):
            if draw(st.integers(0, 2)) == 0:
                r = draw(st.sampled_from([0.5, 1, 2, 3, 5, 10, 0.1, 0.2, 0.7]))
                agents[i]["routes"][str(j)] = r
                agents[j]["routes"][str(i)] = r
    return {"agents": agents, "owner": owner, "footprints": fps, "edges": sorted(edges), "default_route": default_route,
            "k": draw(st.integers(1, 3)),
            "call_order": draw(st.permutations(list(range(na)))),
            "gaps": draw(st.lists(st.integers(0, 12), min_size=na, max_size=na)),
            "schedule": draw(gen.schedules(max_len=80))}


def case_strategy(tier):
    return cases()


class _StubComp:
    def __init__(self, name, fp):
        self.name, self._fp = name, fp

    def footprint(self):
        return self._fp


class _StubAgent:
    """What UCSReplication reads from its agent: name, agent_def, computations()."""

    def __init__(self, name, agent_def, comps):
        self.name, self.agent_def, self._comps = name, agent_def, comps

    def computations(self, include_technical=False):
        return list(self._comps)


def run_case(case):
    na = len(case["agents"])
    names = AGENTS[:na]
    owner = [names[a] for a in case["owner"]]
    nc = len(owner)
    cnames = COMPS[:nc]
    fp = dict(zip(cnames, case["footprints"]))
    neigh = {c: set() for c in cnames}
    for i, j in case["edges"]:
        neigh[cnames[i]].add(cnames[j])
        neigh[cnames[j]].add(cnames[i])
    k = case["k"]
    labels = ["agents:%d" % na, "k:%d" % k]
    nontrivial = False
    try:
        with under_test():
            from pydcop.algorithms import AlgorithmDef, ComputationDef
            from pydcop.computations_graph.objects import ComputationNode
            from pydcop.dcop.objects import AgentDef
            from pydcop.infrastructure.discovery import Directory, Discovery
            from pydcop.replication.dist_ucs_hostingcosts import build_replication_computation
            net = simnet.SimNet(case["schedule"], max_steps=20000)
            ddisc = Discovery("D", "addr_D")
            directory = Directory(ddisc)
            net.add(directory.directory_computation)
            net.add(ddisc.discovery_computation)
            ddisc.use_directory("D", "addr_D")
            algo = AlgorithmDef("dsa", {"probability": 0.7, "p_mode": "fixed", "variant": "B", "stop_cycle": 0}, "min")
            cdefs = {c: ComputationDef(ComputationNode(c, "VariableComputation", neighbors=sorted(neigh[c])), algo)
                     for c in cnames}
            agents, discs, reps = {}, {}, {}
            for i, a in enumerate(names):
                d = case["agents"][i]
                hc = {COMPS[idx % max(nc, 1)]: cost for idx, cost in d["hosting"]} if nc else {}
                adef = AgentDef(a, capacity=d["capacity"], default_hosting_cost=d["default_hosting_cost"],
                                hosting_costs=hc, default_route=case["default_route"],
                                routes={names[int(j)]: r for j, r in d["routes"].items()})
                own = [_StubComp(c, fp[c]) for c in cnames if owner[cnames.index(c)] == a]
                if d.get("unregistered_footprint"):
                    own.append(_StubComp("Brepair_" + a, d["unregistered_footprint"]))
                agents[a] = _StubAgent(a, adef, own)
                discs[a] = Discovery(a, "addr_" + a)
                net.add(discs[a].discovery_computation)
                discs[a].use_directory("D", "addr_D")
            # every agent knows where every agent and computation is (what deployment provides); the directory
            # learns it through the real publication path
            for a in names:
                discs[a].register_agent(a, "addr_" + a)
                for c in cnames:
                    if owner[cnames.index(c)] == a:
                        discs[a].register_computation(c, a)
            for a in names:
                for b in names:
                    if b != a:
                        discs[a].register_agent(b, "addr_" + b, publish=False)
                for c in cnames:
                    if owner[cnames.index(c)] != a:
                        discs[a].register_computation(c, owner[cnames.index(c)], publish=False)
            for c in list(net.comps.values()):
                c.start()
            net.started = list(net.comps)
            saved, net.schedule = net.schedule, []
            net.run()
            net.schedule, net.pos = saved, 0
        if net.errors:
            return Outcome(False, "set-up: handler raised %r" % (net.errors[0],), False, labels,
                           info={"kind": "setup-error"})
        done = {a: [] for a in names}
        ledger = {a: {} for a in names}      # acceptor -> {comp: (owner, footprint)}
        accept_log = []
        bound_viol = []
        with under_test():
            for a in names:
                rep = build_replication_computation(agents[a], discs[a])
                reps[a] = rep
                for c in cnames:
                    if owner[cnames.index(c)] == a:
                        rep.add_computation(cdefs[c], fp[c])

                def _done(hosts, a=a):
                    done[a].append({c: sorted(h) for c, h in hosts.items()})
                rep.replication_done = _done
                orig = rep._accept_replica

                def _accept(origin_agt, comp_def, footprint, a=a, orig=orig):
                    held = ledger[a]
                    owners = sorted(set(o for o, _ in held.values()))
                    worst = 0
                    for s in itertools.combinations(owners, min(k - 1, len(owners))):
                        worst = max(worst, sum(f for o, f in held.values() if o in s))
                    remaining = agents[a].agent_def.capacity - sum(x.footprint() for x in agents[a].computations())
                    if remaining + 1e-9 < footprint + worst:
                        bound_viol.append("%s accepted a replica of %s (footprint %r, owner %s) with remaining "
                                          "capacity %r while it already holds %r: worst case for %d owner(s) is %r" % (
                                              a, comp_def.name, footprint, origin_agt, remaining,
                                              dict(held), k - 1, worst))
                    accept_log.append((net.step, a, comp_def.name, origin_agt, footprint))
                    held[comp_def.name] = (origin_agt, footprint)
                    return orig(origin_agt, comp_def, footprint)
                rep._accept_replica = _accept
                net.add(rep)
                rep.start()
                net.started.append(rep.name)
        # replicate(k) on every agent, in the generated order, interleaved with generated numbers of deliveries
        for pos, ai in enumerate(case["call_order"]):
            a = names[ai]
            try:
                with under_test():
                    net._inside = reps[a].name
                    reps[a].replicate(k)
            except UnderTestError as e:
                return Outcome(False, "%s.replicate(%d) raised %s at %s" % (a, k, e, e.frame), nontrivial, labels,
                               info={"kind": "replicate-raised", "exc": e.exc_type, "frame": e.frame})
            finally:
                net._inside = None
            for _ in range(case["gaps"][pos]):
                acts = net.enabled(False)
                if not acts or net.errors:
                    break
                pick = net.schedule[net.pos] if net.pos < len(net.schedule) else 0
                net.pos += 1
                net.step += 1
                net._run_action(acts[pick % len(acts)])
        net.run()
        labels.append(net.schedule_label())
        replicated = [c for c in cnames if neigh[c]]
        rejections = any(len(accept_log) < k * len(replicated) for _ in [0])
        nontrivial = len(replicated) >= 2 and bool(accept_log) and rejections
        labels.append("accepts:%s" % ("0" if not accept_log else "1-3" if len(accept_log) <= 3 else "4+"))
        ctx = "agents %r, owners %r, footprints %r, neighbours %r, k=%d" % (
            [(a, agents[a].agent_def.capacity) for a in names], dict(zip(cnames, owner)), fp,
            {c: sorted(n) for c, n in neigh.items()}, k)
        if net.errors:
            e = net.errors[0]
            return Outcome(False, "handler raised at step %d: %s %s at %s during %r [%s]" % (
                e[0], e[2], e[3], e[4], e[1], ctx), nontrivial, labels,
                info={"kind": "handler-error", "exc": e[2], "frame": e[4]})
        if bound_viol:
            return Outcome(False, "%s [%s]" % (bound_viol[0], ctx), nontrivial, labels, info={"kind": "bound"})
        if net.bound_hit:
            # bounded liveness: on the reference tree the longest of 8000 measured runs took 533 deliveries; 20000
            # deliveries with traffic still flowing is reported as non-termination
            not_done = [a for a in names if not done[a]]
            return Outcome(False, "still exchanging replication messages after %d deliveries (%d pending); "
                                  "replication_done not reported by %r [%s]" % (net.step, net.pending(), not_done, ctx),
                           nontrivial, labels, info={"kind": "no-termination"})
        if net.pending():
            return Outcome(False, "quiescent with %d undelivered messages [%s]" % (net.pending(), ctx), nontrivial,
                           labels, info={"kind": "pending"})
        not_done = [a for a in names if not done[a]]
        if not_done:
            return Outcome(False, "the run is quiescent but replication_done never fired on %r (accepted so far: %r) "
                                  "[%s]" % (not_done, accept_log, ctx), nontrivial, labels, info={"kind": "not-done"})
        for a in names:
            hosts = done[a][-1]
            for c in cnames:
                if owner[cnames.index(c)] != a:
                    if c in hosts and hosts[c]:
                        return Outcome(False, "%s reports hosts for %s which it does not own [%s]" % (a, c, ctx),
                                       nontrivial, labels, info={"kind": "foreign"})
                    continue
                hs = hosts.get(c, [])
                acceptors = sorted(x for x in names if c in ledger[x])
                bad = None
                if len(set(hs)) != len(hs):
                    bad = "duplicate hosts"
                elif a in hs:
                    bad = "the owner hosts its own replica"
                elif len(hs) > k:
                    bad = "more than k=%d hosts" % k
                elif sorted(hs) != acceptors:
                    bad = "agents that accepted it are %r" % acceptors
                else:
                    for h in hs:
                        with under_test():
                            in_host = c in reps[h].hosted_replicas
                            in_dir = h in ddisc.replica_agents(c)
                            in_own = h in discs[h].replica_agents(c)
                        if not (in_host and in_dir and in_own):
                            bad = "host %s: hosted_replicas %s, directory %s, own discovery %s" % (
                                h, in_host, in_dir, in_own)
                            break
                if bad:
                    return Outcome(False, "replicas of %s (owner %s) reported on %r: %s [%s]" % (c, a, hs, bad, ctx),
                                   nontrivial, labels, info={"kind": "placement"})
        return Outcome(True, "", nontrivial, labels, info={"accepts": len(accept_log)})
    except UnderTestError as e:
        return Outcome(False, "raised %s at %s" % (e, e.frame), nontrivial, labels,
                       info={"kind": "raised", "exc": e.exc_type, "frame": e.frame})
    finally:
        _reset_static_state()


def _reset_static_state():
    """One case = one process lifetime: class-level caches of the code under test are emptied between cases so that
    a failure reproduces from its saved case alone (inside a case the agents do share them, as in a real run)."""
    try:
        from pydcop.replication.dist_ucs_hostingcosts import UCSReplication
        memo = getattr(UCSReplication, "memoize_footprint", None)
        if isinstance(memo, dict):
            memo.clear()
    except Exception:
        pass
