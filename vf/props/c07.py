"""C07  Cycle-bounded local search finishes after stop_cycle cycles."""
from hypothesis import strategies as st

from .. import gen, localsearch, oracles
from ..run import Outcome, UnderTestError

PROPERTY = "C07"
LEVEL = "exploration"
TECHNIQUE = ("property-based testing (Hypothesis): MGM/MGM2/DSA with stop_cycle on SimNet under generated start and "
             "FIFO delivery schedules (incl. adversarial shapes); termination/quiescence oracle")
LEVEL_TEXT = ("MGM, MGM2 and DSA (variants A/B/C, both probability modes) computations with stop_cycle k in 1..6 run on "
              "SimNet on generated DCOPs that include isolated and unary-only variables and n-ary constraints, under "
              "generated start orders and per-channel-FIFO delivery orders (near-canonical, long uniform and starving "
              "shapes) and algorithm seeds. Oracle at quiescence: every computation reported finished() exactly once, "
              "with cycle_count == k (or without cycling when it has no neighbour), no handler raised, no message was "
              "posted to an unknown computation; quiescence with an unfinished computation is a deadlock. Liveness is "
              "checked as quiescence within a generous step bound; a bound hit is counted as inconclusive. "
              "A quarter of the cases are DSA coincidence cases (every variable has own costs, all costs in 0..2).")
LEVEL_NOTE = "Trusted: SimNet's FIFO/priority-lane model. 'Eventually' is bounded: 200000 scheduler steps."
RULE = ("case = DCOP + algorithm + parameters + stop_cycle + schedule + seed; non-trivial = >=2 computations with "
        "neighbours and stop_cycle>=2; distinct by sha1(case)")
ASSUMPTIONS = ["per-channel FIFO delivery; messages buffered before start are re-injected ahead of newer ones"]
BUDGET = {"quick": {"workers": 8, "examples": 600, "seconds": 45},
          "thorough": {"workers": 16, "examples": 18000, "seconds": 600}}


@st.composite
def cases(draw, algos=("mgm", "mgm2", "dsa")):
    desc = draw(gen.dcops(min_vars=1, max_vars=6, min_dom=1, max_dom=3, max_constraints=7, arities=(1, 2, 2, 3),
                          var_costs=True, costs=gen.mixed_costs, initial=True))
    algo = draw(st.sampled_from(list(algos)))
    params = {"stop_cycle": draw(st.integers(1, 6))}
    if algo == "mgm":
        params["break_mode"] = draw(st.sampled_from(["lexic", "random"]))
    elif algo == "mgm2":
        params["threshold"] = draw(st.sampled_from([0.0, 0.5, 1.0]))
        params["favor"] = draw(st.sampled_from(["unilateral", "no", "coordinated"]))
    else:
        params["variant"] = draw(st.sampled_from(["A", "B", "C"]))
        params["p_mode"] = draw(st.sampled_from(["fixed", "arity"]))
        params["probability"] = draw(st.sampled_from([0.0, 0.3, 0.7, 1.0]))
    return {"dcop": desc, "algo": algo, "params": params, "schedule": draw(gen.schedules(120)),
            "seed": draw(st.integers(0, 10000))}


@st.composite
def coincidence_cases(draw):
    """DSA where every variable carries its own cost and every cost is drawn from {0,1,2}: sums computed in two
    different ways (with / without the variable's own cost) coincide often and several values tie for the best one -
    the corner where the branches of the three variants that handle 'no gain' are entered with unusual arguments."""
    desc = draw(gen.dcops(min_vars=2, max_vars=4, min_dom=2, max_dom=3, max_constraints=4, arities=(1, 2, 2),
                          var_costs=False, costs=gen.tie_costs, kinds=("matrix",), str_domains=False, initial=True,
                          shape="connected"))
    for v in desc["variables"]:
        n = len(desc["domains"][v["domain"]])
        v["cost"] = {"kind": "dict", "costs": draw(st.lists(gen.tie_costs, min_size=n, max_size=n))}
    params = {"stop_cycle": draw(st.integers(3, 10)), "variant": draw(st.sampled_from(["A", "B", "C", "C"])),
              "p_mode": "fixed", "probability": draw(st.sampled_from([0.3, 0.7, 1.0]))}
    return {"dcop": desc, "algo": "dsa", "params": params, "schedule": draw(gen.schedules(120)),
            "seed": draw(st.integers(0, 10000))}


@st.composite
def tie_cases(draw):
    """MGM2 / MGM on DCOPs where every cost is 0, 1 or 2: a coordinated gain that exactly equals a third variable's
    gain, an offer that exactly equals the receiver's own gain - the branches that decide who answers whom."""
    algo = draw(st.sampled_from(["mgm2", "mgm2", "mgm2", "mgm"]))
    params = {"stop_cycle": draw(st.integers(2, 8))}
    if algo == "mgm":
        params["break_mode"] = draw(st.sampled_from(["lexic", "random"]))
    else:
        params["threshold"] = draw(st.sampled_from([0.3, 0.5, 0.7]))
        params["favor"] = draw(st.sampled_from(["unilateral", "no", "coordinated"]))
    return {"dcop": draw(gen.tie_dcops(min_vars=3, max_vars=5)), "algo": algo, "params": params,
            "schedule": draw(gen.schedules(120)), "seed": draw(st.integers(0, 10000))}


def case_strategy(tier):
    import os
    only = os.environ.get("VF_ALGOS")
    if only:
        return cases(tuple(only.split(",")))
    return st.one_of(cases(), cases(), cases(), coincidence_cases(), tie_cases())


def run_case(case):
    desc, algo, k = case["dcop"], case["algo"], case["params"]["stop_cycle"]
    labels = gen.dcop_labels(desc) + ["algo:" + algo, "k:%d" % k]
    nb = oracles.neighbours(desc)
    connected = [n for n in nb if nb[n]]
    nontrivial = len(connected) >= 2 and k >= 2
    try:
        r = localsearch.run_algo(desc, algo, case["params"], case["schedule"], case["seed"], max_steps=200000)
        net = r.net
        labels.append(net.schedule_label())
        if len(connected) < len(nb):
            labels.append("has-isolated")
        if net.errors:
            return Outcome(False, "%s: handler raised %r" % (algo, net.errors[0]), nontrivial, labels,
                           info={"phase": "raise", "frame": net.errors[0][4]})
        if net.undeliverable:
            return Outcome(False, "%s: message to unknown computation %r" % (algo, net.undeliverable[0]), nontrivial,
                           labels)
        if net.bound_hit:
            return Outcome(True, "", False, labels + ["bound-hit"], info={"inconclusive": True})
        bad = {n: net.finished[n] for n in nb if net.finished[n] != 1}
        if bad:
            return Outcome(False, "%s k=%d: quiescent but finished() counts are %r (cycle counts %r)" % (
                algo, k, bad, {n: r.comps[n].cycle_count for n in nb}), nontrivial, labels, info={"phase": "deadlock"})
        for n in nb:
            cc = r.comps[n].cycle_count
            if nb[n] and cc != k:
                return Outcome(False, "%s: %s finished after %d cycles, stop_cycle=%d" % (algo, n, cc, k), nontrivial,
                               labels, info={"phase": "count"})
            if not nb[n] and cc not in (0, k):
                return Outcome(False, "%s: neighbour-less %s reports %d cycles" % (algo, n, cc), nontrivial, labels,
                               info={"phase": "count"})
            if not nb[n] and n not in net.finished_step:
                return Outcome(False, "%s: neighbour-less %s did not finish at start" % (algo, n), nontrivial, labels)
    except UnderTestError as e:
        return Outcome(False, "raised %s at %s" % (e, e.frame), True, labels, info={"exc": e.exc_type})
    return Outcome(True, "", nontrivial, labels, info={"steps": net.step})
