"""C28  Algorithm parameters are validated and completed exactly."""
import contextlib
import io
import math

from hypothesis import strategies as st

from ..run import Outcome, UnderTestError, under_test

PROPERTY = "C28"
LEVEL = "exploration"
TECHNIQUE = ("property-based testing (Hypothesis): generated parameter definitions x generated user-supplied parameter "
             "sets (valid, string-typed, invalid, unknown) through all three preparation entry points, against a "
             "reference model of declared-type conversion / allowed values / defaults")
LEVEL_TEXT = ("Parameter definitions: the algo_params of every shipped algorithm module (introspected at run time) and "
              "synthetic definitions (0-5 parameters of type int/float/str, with or without allowed-value lists, any "
              "default). User input: any subset of the declared parameters, each given as a value of the declared "
              "type, as an int for a float, as a string needing conversion, as a value outside the allowed list, as "
              "an unparseable string, as a wrongly typed value, plus unknown names (near-misses of declared names). "
              "1-3 successive preparations on the same definitions (so a result leaking from one call into the next "
              "is visible). Entry points: prepare_algo_params, AlgorithmDef.build_with_default_param (explicit "
              "definitions and by module name) and commands._utils.build_algo_def with 'name:value' strings. Oracle: "
              "a reference model computed from the case: result keys == declared names, supplied values converted to "
              "the declared type (type checked exactly) and member of the allowed list, all others == declared "
              "default; any unknown name / invalid value must end in an exception (ValueError/TypeError, SystemExit "
              "from the CLI helper) and never in a result. Values include instances of "
              "subclasses of the declared type (bool, int subclass, numpy.float64), which must come back as the declared "
              "type; every other call submits the same dict object twice. Sampling, not proof.")
LEVEL_NOTE = ("Trusted: the reference model in this file. Not asserted (counted under label 'lossy'): a non-integral "
              "float given for an int parameter, where only 'rejected, or a value of the declared type' is required "
              "because the statement does not say whether truncation is a valid conversion. bool/None values and "
              "CLI values containing ':' are outside the generated domain.")
RULE = ("case = definitions + 1-3 calls (entry point, supplied name/kind/value triples); non-trivial = >=2 declared "
        "parameters and at least one supplied value that needs conversion or must be rejected; distinct by sha1(case)")
ASSUMPTIONS = ["the CLI helper is only driven with shipped algorithm names (it reloads the module by name)"]
BUDGET = {"quick": {"workers": 8, "examples": 2000, "seconds": 30},
          "thorough": {"workers": 16, "examples": 45000, "seconds": 450}}

SHIPPED = ["adsa", "amaxsum", "dba", "dpop", "dsa", "dsatuto", "gdba", "maxsum", "maxsum_dynamic", "mgm", "mgm2",
           "mixeddsa", "ncbb", "syncbb"]
NAMES = ["p", "q", "stop_cycle", "p_mode", "variant", "x1", "x10", "probability"]
UNKNOWN = ["Variant", "stop_cycles", "stop", "", "P", "x", "x11", "probability ", "unknown_param", "mode", "values"]
INT_VALS = [0, 1, -3, 7, 50, 10000, 2 ** 40, 2 ** 53 + 1]
# strings that are numbers but not integers: an int parameter must reject them (int('2.5') raises)
BAD_INT_STR = ["2.5", "7.9", "-1.25", "1e3", "20.0", "inf"]
FLOAT_VALS = [0.0, 0.5, -1.25, 0.7, 1e-3, 3.0, 1e12, float("inf")]
STR_VALS = ["A", "B", "C", "fixed", "arity", "both", "x y", "", "1", "0.5"]
BAD_NUM_STR = ["", "abc", "1,5", "0x10", "1.5.2", "--1", "one"]
WRONG_FOR_STR = [0, 5, 0.5, -1]

pools = {"int": INT_VALS, "float": FLOAT_VALS, "str": STR_VALS}


@st.composite
def synth_defs(draw):
    n = draw(st.integers(0, 5))
    names = draw(st.lists(st.sampled_from(NAMES), min_size=n, max_size=n, unique=True))
    defs = []
    for nm in names:
        ty = draw(st.sampled_from(["int", "float", "str"]))
        values = None
        if draw(st.integers(0, 2)) == 0:
            values = draw(st.lists(st.sampled_from(pools[ty]), min_size=1, max_size=3, unique=True))
        dk = draw(st.integers(0, 3))
        if dk == 0:
            default = None
        elif values and dk < 3:
            default = draw(st.sampled_from(values))
        else:
            default = draw(st.sampled_from(pools[ty]))
        defs.append([nm, ty, values, default])
    return defs


def str_forms(ty, v):
    """String spellings that must convert to v for the declared type."""
    if ty == "int":
        return [str(v), " %d " % v, "%+d" % v] + (["00%d" % v] if v >= 0 else [])
    if v == float("inf"):
        return ["inf", "Infinity"]
    out = [repr(v), "%e" % v] if float("%e" % v) == v else [repr(v)]
    if v == int(v) and abs(v) < 1e6:
        out.append(str(int(v)))
    return out


def _near_misses(values):
    """Spellings that differ from an allowed value only by case or surrounding blanks and are not allowed
    themselves: they must be rejected like any other value outside the list."""
    out = []
    for v in values:
        if not isinstance(v, str) or not v:
            continue
        for w in (v.lower(), v.upper(), v.capitalize(), " " + v, v + " "):
            if w not in values and w not in out and ":" not in w:
                out.append(w)
    return out


@st.composite
def supplied_for(draw, d, cli):
    """One supplied (name, kind, value) for the declared parameter d."""
    nm, ty, values, _ = d
    good = values if values else pools[ty]
    kinds = ["typed", "str"] if ty != "str" else ["typed"]
    if ty == "float":
        kinds.append("int_for_float")
    if values:
        kinds.append("not_allowed")
        if ty == "str" and _near_misses(values):
            kinds.append("near_miss")
    if ty != "str":
        kinds += ["unparseable", "lossy"] if ty == "int" else ["unparseable"]
        # an instance of a subclass of the declared type (bool / int subclass for int, numpy.float64 for float):
        # the prepared value must be of the declared type itself
        kinds.append("subclass")
    elif not cli:
        kinds.append("wrong_type")
    if cli:
        kinds = [k for k in kinds if k not in ("int_for_float", "lossy", "subclass")]
    kind = draw(st.sampled_from(kinds))
    if kind == "typed":
        v = draw(st.sampled_from(good))
        if cli:
            if ty != "str":
                kind, v = "str", draw(st.sampled_from(str_forms(ty, v)))
            elif ":" in v:
                v = "A" if not values else values[0]
    elif kind == "str":
        v = draw(st.sampled_from(str_forms(ty, draw(st.sampled_from(good)))))
    elif kind == "int_for_float":
        cands = [int(x) for x in good if x == x and abs(x) < 1e15 and x == int(x)]
        if not cands:
            kind, v = "typed", draw(st.sampled_from(good))
        else:
            v = draw(st.sampled_from(cands))
    elif kind == "near_miss":
        v = draw(st.sampled_from(_near_misses(values)))
    elif kind == "subclass":
        cands = [x for x in good if x == x and abs(x) < 1e15]
        if not cands:
            kind, v = "typed", draw(st.sampled_from(good))
        else:
            v = draw(st.sampled_from(cands))
    elif kind == "not_allowed":
        cands = [x for x in pools[ty] if x not in values]
        if not cands:
            kind, v = "typed", draw(st.sampled_from(good))
        else:
            v = draw(st.sampled_from(cands))
            if draw(st.booleans()) and ty != "str":
                v = repr(v) if ty == "float" else str(v)
            elif cli and ty != "str":
                v = repr(v) if ty == "float" else str(v)
    elif kind == "unparseable":
        v = draw(st.sampled_from(BAD_NUM_STR + (BAD_INT_STR if ty == "int" else [])))
    elif kind == "lossy":
        v = draw(st.sampled_from([2.7, -0.5, 1e-9, 3.999]))
    else:
        v = draw(st.sampled_from(WRONG_FOR_STR))
    return [nm, kind, v]


@st.composite
def cases(draw):
    shipped = draw(st.integers(0, 2)) > 0
    case = {}
    if shipped:
        case["algo"] = draw(st.sampled_from(SHIPPED))
        # the declared parameters are looked up at run time; the draw below picks positions and kinds
        case["calls"] = [{"entry": draw(st.sampled_from(["prepare", "build_name", "build_defs", "cli"])),
                          "picks": draw(st.lists(st.tuples(st.integers(0, 5), st.integers(0, 10 ** 6)), max_size=4)),
                          "unknown": draw(st.lists(st.sampled_from(UNKNOWN), max_size=1 if draw(st.integers(0, 3)) else 0)),
                          "mode": draw(st.sampled_from(["min", "max"]))}
                         for _ in range(draw(st.integers(1, 3)))]
    else:
        defs = draw(synth_defs())
        case["defs"] = defs
        calls = []
        for _ in range(draw(st.integers(1, 3))):
            sup = []
            for d in defs:
                if draw(st.booleans()):
                    sup.append(draw(supplied_for(d, False)))
            unk = draw(st.lists(st.sampled_from(UNKNOWN), max_size=1)) if draw(st.integers(0, 3)) == 0 else []
            unk = [u for u in unk if u not in [d[0] for d in defs]]
            for u in unk:
                sup.append([u, "unknown", draw(st.sampled_from([1, "A", 0.5]))])
            calls.append({"entry": draw(st.sampled_from(["prepare", "build_defs"])),
                          "supplied": draw(st.permutations(sup)),
                          "mode": draw(st.sampled_from(["min", "max"]))})
        case["calls"] = calls
    return case


def case_strategy(tier):
    return cases()


def _resolve_shipped(case, defs):
    """Turn (position, entropy) picks into concrete supplied triples, deterministically from the case."""
    from hypothesis import strategies as _st  # noqa: F401  (not used: resolution is arithmetic, no randomness)
    calls = []
    for c in case["calls"]:
        cli = c["entry"] == "cli"
        sup, seen = [], set()
        for pos, ent in c["picks"]:
            if not defs:
                break
            d = defs[pos % len(defs)]
            if d[0] in seen:
                continue
            seen.add(d[0])
            sup.append(_pick(d, ent, cli))
        for u in c["unknown"]:
            if u not in [d[0] for d in defs] and not (cli and (":" in u)):
                sup.append([u, "unknown", "1" if cli else 1])
        calls.append({"entry": c["entry"], "supplied": sup, "mode": c["mode"]})
    return calls


def _pick(d, ent, cli):
    nm, ty, values, _ = d
    good = list(values) if values else pools[ty]
    kinds = ["typed", "typed", "str"] if ty != "str" else ["typed", "typed"]
    if ty == "float" and not cli:
        kinds.append("int_for_float")
    if values:
        kinds.append("not_allowed")
        if ty == "str" and _near_misses(values):
            kinds.append("near_miss")
    if ty != "str":
        kinds.append("unparseable")
        if ty == "int" and not cli:
            kinds.append("lossy")
    elif not cli:
        kinds.append("wrong_type")
    kind = kinds[ent % len(kinds)]
    ent //= len(kinds)
    if kind in ("typed", "str"):
        v = good[ent % len(good)]
        ent //= len(good)
        if kind == "str" or (cli and ty != "str"):
            forms = str_forms(ty, v)
            kind, v = "str", forms[ent % len(forms)]
    elif kind == "int_for_float":
        cands = [int(x) for x in good if abs(x) < 1e15 and x == int(x)]
        if cands:
            v = cands[ent % len(cands)]
        else:
            kind, v = "typed", good[ent % len(good)]
    elif kind == "not_allowed":
        cands = [x for x in pools[ty] if x not in values and ":" not in str(x)]
        v = cands[ent % len(cands)]
        if cli and ty != "str":
            v = repr(v)
    elif kind == "near_miss":
        nm_ = _near_misses(values)
        v = nm_[ent % len(nm_)]
    elif kind == "unparseable":
        bad = BAD_NUM_STR + (BAD_INT_STR if ty == "int" else [])
        v = bad[ent % len(bad)]
    elif kind == "lossy":
        v = [2.7, -0.5, 1e-9, 3.999][ent % 4]
    else:
        v = WRONG_FOR_STR[ent % len(WRONG_FOR_STR)]
    return [nm, kind, v]


def expected(defs, supplied):
    """Reference model -> ('error', reason) | ('ok', dict, lossy_names)."""
    byname = {d[0]: d for d in defs}
    res = {d[0]: d[3] for d in defs}
    lossy = set()
    for nm, kind, v in supplied:
        if nm not in byname:
            return ("error", "unknown parameter %r" % nm)
        _, ty, values, _ = byname[nm]
        if kind in ("unparseable", "wrong_type", "not_allowed", "near_miss"):
            return ("error", "%s value %r for %s parameter %r" % (kind, v, ty, nm))
        if kind == "lossy":
            lossy.add(nm)
            continue
        if ty == "int":
            conv = int(v)
        elif ty == "float":
            conv = float(v)
        else:
            conv = v
        if values and conv not in values:
            return ("error", "value %r of %r not in %r" % (conv, nm, values))
        res[nm] = conv
    return ("ok", res, lossy)


class _IntSub(int):
    """An int subclass (what an IntEnum member or a bool is)."""


def _instance(ty, kind, v):
    if kind != "subclass":
        return v
    if ty == "int":
        return bool(v) if v in (0, 1) else _IntSub(v)
    import numpy
    return numpy.float64(v)


def same(a, b):
    if type(a) is not type(b):
        return False
    if isinstance(a, float) and math.isnan(a):
        return math.isnan(b)
    return a == b


def run_case(case):
    labels = []
    nontrivial = False
    try:
        with under_test():
            from pydcop.algorithms import (AlgoParameterDef, AlgorithmDef, load_algorithm_module,
                                           prepare_algo_params)
            from pydcop.commands._utils import build_algo_def
        if "algo" in case:
            with under_test():
                module = load_algorithm_module(case["algo"])
                pdefs = list(module.algo_params)
            defs = [[p.name, p.type, list(p.values) if p.values else p.values, p.default_value] for p in pdefs]
            calls = _resolve_shipped(case, defs)
            algo = case["algo"]
            labels.append("shipped")
        else:
            defs = case["defs"]
            with under_test():
                pdefs = [AlgoParameterDef(d[0], d[1], list(d[2]) if d[2] is not None else None, d[3]) for d in defs]
            calls, algo, module = case["calls"], "dsa", None
            labels.append("synthetic")
        labels.append("declared:%d" % min(len(defs), 4))
        for ci, c in enumerate(calls):
            sup = c["supplied"]
            exp = expected(defs, sup)
            kinds = sorted(set(s[1] for s in sup))
            labels += ["kind:" + k for k in kinds if ("kind:" + k) not in labels]
            labels.append("entry:" + c["entry"]) if ("entry:" + c["entry"]) not in labels else None
            if len(defs) >= 2 and any(k not in ("typed",) for k in kinds):
                nontrivial = True
            tyof = {d[0]: d[1] for d in defs}
            params = {s[0]: _instance(tyof.get(s[0]), s[1], s[2]) for s in sup}
            desc = "call %d %s(%r) on %s" % (ci, c["entry"], params, case.get("algo") or defs)
            got, err = None, None
            # the caller's dict: every other call hands the very same dict object over twice (a script preparing
            # several algorithms with one set of common parameters); the second preparation is the one checked
            user = dict(params)
            resubmit = ci % 2 == 1 and c["entry"] != "cli"
            if resubmit:
                labels.append("resubmitted") if "resubmitted" not in labels else None
                desc = "second submission of the same dict, " + desc
                try:
                    with under_test(), contextlib.redirect_stdout(io.StringIO()):
                        if c["entry"] == "prepare":
                            prepare_algo_params(user, pdefs)
                        elif c["entry"] == "build_defs":
                            AlgorithmDef.build_with_default_param(algo, user, mode=c["mode"],
                                                                  parameters_definitions=pdefs)
                        else:
                            AlgorithmDef.build_with_default_param(algo, user, mode=c["mode"])
                except UnderTestError:
                    pass
            try:
                buf = io.StringIO()
                with under_test(), contextlib.redirect_stdout(buf):
                    if c["entry"] == "prepare":
                        got = prepare_algo_params(user, pdefs)
                        adef = None
                    elif c["entry"] == "build_defs":
                        adef = AlgorithmDef.build_with_default_param(algo, user, mode=c["mode"],
                                                                     parameters_definitions=pdefs)
                        got = adef.params
                    elif c["entry"] == "build_name":
                        adef = AlgorithmDef.build_with_default_param(algo, user, mode=c["mode"])
                        got = adef.params
                    else:
                        cli = ["%s:%s" % (s[0], s[2]) for s in sup]
                        adef = build_algo_def(module, algo, c["mode"], cli if (cli or ci % 2) else None)
                        got = adef.params
            except UnderTestError as e:
                err = e
                if e.exc_type == "SystemExit" and "systemexit" not in labels:
                    labels.append("systemexit")
            if exp[0] == "error":
                if err is None:
                    return Outcome(False, "%s: accepted although %s; result %r" % (desc, exp[1], got), nontrivial,
                                   labels, info={"kind": "accepted-invalid"})
                allowed = ("ValueError", "TypeError") + (("SystemExit",) if c["entry"] == "cli" else ())
                if err.exc_type not in allowed:
                    return Outcome(False, "%s: rejected with %s at %s instead of a parameter error" % (
                        desc, err, err.frame), nontrivial, labels, info={"kind": "wrong-exception"})
                labels.append("rejected") if "rejected" not in labels else None
                continue
            _, res, lossy = exp
            if err is not None:
                if lossy:
                    labels.append("lossy") if "lossy" not in labels else None
                    continue
                return Outcome(False, "%s: valid parameters rejected: %s" % (desc, err), nontrivial, labels,
                               info={"kind": "rejected-valid"})
            if lossy:
                labels.append("lossy") if "lossy" not in labels else None
            if set(got) != set(res):
                return Outcome(False, "%s: parameter names %r != declared %r" % (desc, sorted(got), sorted(res)),
                               nontrivial, labels, info={"kind": "names"})
            types = {d[0]: d[1] for d in defs}
            for nm in res:
                if nm in lossy:
                    if got[nm].__class__.__name__ != types[nm]:
                        return Outcome(False, "%s: %r = %r is not of declared type %s" % (desc, nm, got[nm], types[nm]),
                                       nontrivial, labels, info={"kind": "type"})
                    continue
                if not same(got[nm], res[nm]):
                    return Outcome(False, "%s: %r = %r (%s), expected %r (%s)" % (
                        desc, nm, got[nm], type(got[nm]).__name__, res[nm], type(res[nm]).__name__),
                        nontrivial, labels, info={"kind": "value"})
            if adef is not None:
                with under_test():
                    ok = (adef.algo == algo and adef.mode == c["mode"] and set(adef.param_names()) == set(res)
                          and all(nm in lossy or same(adef.param_value(nm), res[nm]) for nm in res))
                if not ok:
                    return Outcome(False, "%s: AlgorithmDef accessors disagree with the prepared parameters "
                                          "(algo %r mode %r names %r)" % (desc, adef.algo, adef.mode,
                                                                          sorted(adef.param_names())),
                                   nontrivial, labels, info={"kind": "accessors"})
    except UnderTestError as e:
        return Outcome(False, "raised %s at %s" % (e, e.frame), nontrivial, labels, info={"exc": e.exc_type})
    return Outcome(True, "", nontrivial, labels)


def postcheck(cov, tier):
    need = ["shipped", "synthetic", "entry:cli", "entry:prepare", "entry:build_name", "entry:build_defs", "rejected",
            "kind:str", "kind:unknown", "kind:not_allowed"]
    missing = [l for l in need if not cov["labels"].get(l)]
    return ("classes never generated: %s" % missing) if missing else None
