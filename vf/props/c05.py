"""C05  Max-Sum without damping is exact on acyclic factor graphs."""
from hypothesis import strategies as st

from .. import gen, localsearch, oracles
from ..run import Outcome, UnderTestError

PROPERTY = "C05"
LEVEL = "exploration"
TECHNIQUE = ("property-based testing (Hypothesis): Max-Sum / A-Max-Sum on generated forest-shaped DCOPs with a unique "
             "optimum under generated FIFO schedules on SimNet, oracle = brute-force optimum")
LEVEL_TEXT = ("Forest-shaped factor graphs are built by construction (union-find: each factor joins distinct "
              "components): 1-6 variables, factors of arity 1-3, variable costs, integer costs in [0,1000], min and "
              "max; instances without a unique optimum are discarded (counted). Synchronous Max-Sum runs on SimNet "
              "until every computation has completed 2*diameter + 2*SAME_COUNT + 4 rounds, A-Max-Sum until quiescence, "
              "with damping 0, noise 0, every start_messages mode and stability 0.1 (default) or 0, under generated "
              "start/delivery schedules. Oracle: the selected assignment equals the unique brute-force optimum and "
              "no handler raised. Half of the cases are trees of binary variables tied by soft "
              "equalities with preferences of very different strengths (hub, chain ends, one opponent). With stability "
              "> 0 a monitor checks on the wire that a computation goes silent towards a neighbour only within the "
              "threshold of the last message it sent there and after SAME_COUNT such sends; only then is a wrong "
              "result attributed to the listed cut-off finding. Sampling of inputs x schedules.")
LEVEL_NOTE = ("Trusted: SimNet FIFO model, brute-force oracle. 'Enough messages' is a bounded number of rounds well "
              "beyond the factor-graph diameter; unique optimum is a precondition enforced by discarding.")
RULE = ("case = forest DCOP + algorithm + parameters + schedule; discarded unless the optimum is unique; non-trivial = "
        ">=3 variables in one component with factor-graph diameter >= 4; distinct by sha1(case)")
ASSUMPTIONS = ["integer costs in [0,1000] so that float normalisation errors (1e-12) cannot flip a decision"]
BUDGET = {"quick": {"workers": 8, "examples": 220, "seconds": 40},
          "thorough": {"workers": 16, "examples": 2000, "seconds": 600}}

SAME_COUNT = 4


@st.composite
def cases(draw, algos=("maxsum", "amaxsum")):
    # one case in five draws all its costs from a narrow band on a large offset (relative differences below the
    # default stability threshold of 10 %)
    band = st.integers(1000, 1020) if draw(st.integers(0, 4)) == 0 else st.integers(0, 1000)
    desc = draw(gen.dcops(min_vars=1, max_vars=6, min_dom=1, max_dom=3, max_constraints=7, min_constraints=1,
                          arities=(1, 2, 2, 3), var_costs=True, costs=band, shape="forest",
                          kinds=("matrix",)))
    algo = draw(st.sampled_from(list(algos)))
    params = {"damping": 0.0, "noise": 0.0, "damping_nodes": draw(st.sampled_from(["none", "both"])),
              "start_messages": draw(st.sampled_from(["leafs", "leafs_vars", "all"])),
              "stability": draw(st.sampled_from([0.1, 0.1, 0.0]))}
    return {"dcop": desc, "algo": algo, "params": params, "schedule": draw(gen.schedules(100)),
            "seed": draw(st.integers(0, 1000))}


def _below(parents, i, top):
    while i in parents:
        i = parents[i]
        if i == top:
            return True
    return False


@st.composite
def equality_tree_cases(draw, algos=("maxsum", "amaxsum")):
    """Trees of binary variables tied by soft equalities (penalty 1000) with unary preferences of very different
    strengths (a strong one near a hub, weak ones at the end of chains of different lengths, an opposing one that
    almost balances them): messages are repeated unchanged for several rounds and then move by a few per cent, which
    is the regime the stability cut-off (default 0.1) acts in.  The optimum is decided by the sum of small far-away
    contributions."""
    n = draw(st.integers(4, 12))
    names = ["t%d" % i for i in range(n)]
    objective = draw(st.sampled_from(["min", "max"]))
    pen = 1000
    eq = [[0, pen], [pen, 0]] if objective == "min" else [[pen, 0], [0, pen]]
    constraints = []
    shape = draw(st.sampled_from(["random", "hub-chains", "hub-chains"]))
    parents = {}
    if shape == "random":
        for i in range(1, n):
            parents[i] = draw(st.integers(0, i - 1))
    else:
        # node 0 is the hub; chains of generated lengths hang from it
        i = 1
        while i < n:
            length = min(draw(st.sampled_from([1, 2, 2, 3, 3, 4, 5])), n - i)
            prev = 0
            for _ in range(length):
                parents[i] = prev
                prev = i
                i += 1
    for i in range(1, n):
        constraints.append({"name": "e%d" % i, "scope": [names[parents[i]], names[i]], "kind": "matrix",
                            "table": eq})
    weights = st.sampled_from([9, 9, 10, 12, 30, 100, 100, 110, 118, 127])
    k = 0

    def unary(i, w, prefers):
        # min: the other value costs w; max: the preferred value earns w
        t = [w, w]
        t[prefers] = 0
        if objective == "max":
            t = [w - x for x in t]
        constraints.append({"name": "u%d" % len([c for c in constraints if c["name"].startswith("u")]),
                            "scope": [names[i]], "kind": "matrix", "table": t})

    if shape == "hub-chains" and draw(st.booleans()):
        # balanced story: the hub and the ends of its chains pull one way (strong + several weak), one neighbour of
        # the hub pulls the other way with a strength that only the sum of ALL of them beats
        side = draw(st.integers(0, 1))
        strong = draw(st.sampled_from([60, 80, 100]))
        children = [i for i in range(1, n) if parents[i] == 0]
        opponent = children[-1] if len(children) >= 2 else None
        ends = [i for i in range(1, n) if i not in parents.values() and i != opponent and
                (opponent is None or not _below(parents, i, opponent))]
        weak = {i: draw(st.integers(5, 12)) for i in ends}
        unary(0, strong, side)
        for i, w in weak.items():
            unary(i, w, side)
        if opponent is not None and weak:
            total = strong + sum(weak.values())
            unary(opponent, total - draw(st.integers(1, max(1, min(weak.values()) - 1))), 1 - side)
    else:
        for i in range(n):
            if i == 0 or draw(st.integers(0, 2)) > 0:
                unary(i, draw(weights), draw(st.integers(0, 1)))
    desc = {"objective": objective, "domains": {"d0": [0, 1]},
            "variables": [{"name": nm, "domain": "d0", "cost": None, "initial": None} for nm in names],
            "constraints": constraints}
    algo = draw(st.sampled_from(list(algos)))
    params = {"damping": 0.0, "noise": 0.0, "damping_nodes": "none",
              "start_messages": draw(st.sampled_from(["leafs", "leafs_vars", "all"])),
              "stability": draw(st.sampled_from([0.1, 0.1, 0.1, 0.0]))}
    return {"dcop": desc, "algo": algo, "params": params, "schedule": draw(gen.schedules(100)),
            "seed": draw(st.integers(0, 1000))}


def case_strategy(tier):
    import os
    only = os.environ.get("VF_ALGOS")
    if only:
        return cases(tuple(only.split(",")))
    return st.one_of(cases(), equality_tree_cases())


def factor_graph_adj(desc):
    adj = {v["name"]: set() for v in desc["variables"]}
    for c in desc["constraints"]:
        adj[c["name"]] = set(c["scope"])
        for n in c["scope"]:
            adj[n].add(c["name"])
    return adj


def _approx(costs, prev, stab):
    """The documented cut-off test: every entry equal, or changed by less than `stab` relatively to the mean of the
    two values."""
    if prev is None:
        return False
    for d, c in costs.items():
        p = prev.get(d)
        if p is None:
            return False
        if p != c and (p + c == 0 or not (2 * abs(p - c) / abs(p + c) < stab)):
            return False
    return True


class CutoffMonitor:
    """Watches, on the wire, what the stability cut-off suppresses.  Documented behaviour: a computation may skip
    the message to a neighbour only if what it would send differs by less than `stability` (relatively, entry by
    entry) from the last message it really SENT to that neighbour, and only after SAME_COUNT consecutive messages to
    that neighbour stayed within the threshold of their predecessor.  The message it would send is recomputed with the
    module's own public message functions from the messages the harness saw delivered - the monitor says nothing
    about the arithmetic, only about the decision to stay silent.  Used to tell the listed finding
    C05-stability-cutoff (the cut-off works as documented and freezes propagation too early) from any other way of
    ending on a wrong assignment with stability > 0."""

    def __init__(self, r, algo, stab, mode):
        from importlib import import_module
        self.ms = import_module("pydcop.algorithms.maxsum")
        self.r, self.algo, self.stab, self.mode = r, algo, stab, mode
        self.recv = {n: {} for n in r.comps}
        self.last_sent = {}
        self.streak = {}      # (src, dst) -> number of trailing sends each within the threshold of the one before
        self.deviations = []
        self.seen = 0
        self.kind, self.obj, self.targets = {}, {}, {}
        for n, c in r.comps.items():
            node = c.computation_def.node
            if hasattr(node, "factor"):
                self.kind[n], self.obj[n] = "factor", node.factor
                self.targets[n] = [v.name for v in node.factor.dimensions]
            else:
                self.kind[n], self.obj[n] = "variable", node.variable
                self.targets[n] = [l.factor_node for l in node.links]

    def absorb_trace(self):
        """Record what was posted since the last call -> {(src, dst): costs} posted in that span."""
        now = {}
        trace = self.r.net.trace
        for seq, step, src, dst, msg, _ in trace[self.seen:]:
            if getattr(msg, "type", None) == "max_sum":
                costs = dict(msg.costs)
                same = _approx(costs, self.last_sent.get((src, dst)), self.stab)
                self.streak[(src, dst)] = self.streak.get((src, dst), 0) + 1 if same else 1
                self.last_sent[(src, dst)] = costs
                now[(src, dst)] = True
        self.seen = len(trace)
        return now

    def would_send(self, n, t):
        if self.kind[n] == "factor":
            var = [v for v in self.obj[n].dimensions if v.name == t][0]
            return self.ms.factor_costs_for_var(self.obj[n], var, self.recv[n], self.mode)
        return self.ms.costs_for_factor(self.obj[n], t, self.targets[n], self.recv[n])

    def evaluated(self, n, targets, posted, where):
        for t in targets:
            if (n, t) in posted:
                continue
            w = self.would_send(n, t)
            if not _approx(w, self.last_sent.get((n, t)), self.stab):
                self.deviations.append("%s stayed silent towards %s %s although it would send %r and the last message "
                                       "it sent there is %r" % (n, t, where, w, self.last_sent.get((n, t))))
            elif self.streak.get((n, t), 0) < SAME_COUNT:
                # an unchanged message is repeated SAME_COUNT times before the computation goes silent
                self.deviations.append("%s stayed silent towards %s %s after only %d message(s) within the threshold "
                                       "(SAME_COUNT is %d)" % (n, t, where, self.streak.get((n, t), 0), SAME_COUNT))

    # synchronous Max-Sum: one evaluation of every neighbour per cycle
    def wrap_sync(self, n, c):
        orig = c.on_new_cycle

        def on_new_cycle(messages, cycle_id):
            self.absorb_trace()
            for sender, (message, _) in messages.items():
                self.recv[n][sender] = dict(message.costs)
            res = orig(messages, cycle_id)
            posted = self.absorb_trace()
            if not self.deviations:
                self.evaluated(n, self.targets[n], posted, "in cycle %s" % cycle_id)
            return res
        c.on_new_cycle = on_new_cycle

    # asynchronous A-Max-Sum: one evaluation per delivered message (never towards its sender)
    def after_async_step(self, net, act):
        if act[0] not in ("deliver", "lane"):
            self.absorb_trace()
            return
        _, src, n, _, msg = net.delivered[-1]
        posted = self.absorb_trace()
        if getattr(msg, "type", None) != "max_sum" or n not in self.kind or self.deviations:
            return
        if not self.r.comps[n].is_running:
            return   # delivered before the computation started: buffered, handled (and seen here) after its start
        self.recv[n][src] = dict(msg.costs)
        if self.kind[n] == "variable":
            targets = [t for t in self.targets[n] if t != src]
        else:
            targets = [t for t in self.targets[n] if t != src and
                       all(o in self.recv[n] for o in self.targets[n] if o != t)]
        self.evaluated(n, targets, posted, "after the message of %s (step %d)" % (src, net.step))


def run_case(case):
    desc, algo = case["dcop"], case["algo"]
    labels = ["algo:" + algo, "obj:" + desc["objective"], "start:" + case["params"]["start_messages"],
              "stability:%s" % case["params"]["stability"]]
    best, args, worst = oracles.brute_force(desc)
    if len(args) != 1:
        return Outcome(discard=True)
    adj = factor_graph_adj(desc)
    diam = oracles.diameter(adj)
    nontrivial = len(desc["variables"]) >= 3 and diam >= 4
    labels.append("diam:%d" % min(diam, 8))
    rounds = 2 * diam + 2 * SAME_COUNT + 4
    monitor = []
    try:
        def prep(r):
            mon = None
            if case["params"]["stability"] > 0:
                r.net.trace = []
                mon = CutoffMonitor(r, algo, case["params"]["stability"], desc["objective"])
                monitor.append(mon)
            if algo == "maxsum":
                with_nb = [c for n, c in r.comps.items() if adj[n]]
                if mon:
                    for n, c in r.comps.items():
                        mon.wrap_sync(n, c)

                def after(net, act):
                    if all(c.cycle_count >= rounds for c in with_nb):
                        net.halt = True
                r.net.after_step = after
            elif mon:
                r.net.after_step = mon.after_async_step

        r = localsearch.run_algo(desc, algo, case["params"], case["schedule"], case["seed"], max_steps=300000,
                                 before_run=prep)
        net = r.net
        labels.append(net.schedule_label())
        if net.errors:
            return Outcome(False, "%s: handler raised %r" % (algo, net.errors[0]), nontrivial, labels,
                           info={"phase": "raise"})
        if net.undeliverable:
            return Outcome(False, "%s: message to unknown computation %r" % (algo, net.undeliverable[0]), nontrivial,
                           labels)
        if net.bound_hit:
            return Outcome(True, "", False, labels + ["bound-hit"], info={"inconclusive": True})
        a = {}
        for v in desc["variables"]:
            val = r.comps[v["name"]].current_value
            if val not in desc["domains"][v["domain"]]:
                return Outcome(False, "%s: %s holds %r, not in its domain" % (algo, v["name"], val), nontrivial, labels)
            a[v["name"]] = val
        if a != args[0]:
            return Outcome(False, "%s(%s, start=%s, stability=%s): selected %r (cost %r) but the unique optimum is %r "
                           "(cost %r) after %d steps" % (algo, desc["objective"], case["params"]["start_messages"],
                                                         case["params"]["stability"], a, oracles.total_cost(desc, a),
                                                         args[0], best, net.step),
                           nontrivial, labels, info={"phase": "optimum", "diam": diam,
                                                     "cutoff_deviation": (monitor[0].deviations[0] if monitor and
                                                                          monitor[0].deviations else None)})
    except UnderTestError as e:
        return Outcome(False, "raised %s at %s" % (e, e.frame), True, labels, info={"exc": e.exc_type})
    if monitor and monitor[0].deviations:
        labels.append("cutoff-deviation")
    return Outcome(True, "", nontrivial, labels, info={"steps": net.step, "diam": diam})


def classify(case, out):
    """Listed finding C05-stability-cutoff: with a stability threshold > 0 (0.1 is the default) a computation stops
    sending a message once it changed by less than the threshold, relatively, SAME_COUNT times in a row; on trees whose
    costs sit on a large common offset every update is 'small' and propagation freezes before the exact marginals are
    reached.  Matched only when the same case - same DCOP, schedule, start mode - selects the optimum with the
    threshold set to 0, i.e. the cut-off is the only cause."""
    if (out.info or {}).get("cutoff_deviation"):
        return None   # the cut-off suppressed something it is not documented to suppress: not the listed finding
    if case["params"].get("stability", 0) > 0 and (out.info or {}).get("phase") == "optimum":
        again = dict(case, params=dict(case["params"], stability=0.0))
        try:
            if run_case(again).ok:
                return "C05-stability-cutoff"
        except Exception:
            return None
    return None
