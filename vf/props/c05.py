"""C05  Max-Sum without damping is exact on acyclic factor graphs."""
from hypothesis import strategies as st

from .. import gen, localsearch, oracles
from ..run import Outcome, UnderTestError

PROPERTY = "C05"
LEVEL = "exploration"
TECHNIQUE = ("property-based testing (Hypothesis): Max-Sum / A-Max-Sum on generated forest-shaped DCOPs with a unique "
             "optimum under generated FIFO schedules on SimNet, oracle = brute-force optimum")
LEVEL_TEXT = ("Forest-shaped factor graphs are built by construction (union-find: each factor joins distinct "
              "components): 1-6 variables, factors of arity 1-3, variable costs, integer costs in [0,1000], min and "
              "max; instances without a unique optimum are discarded (counted). Synchronous Max-Sum runs on SimNet "
              "until every computation has completed 2*diameter + 2*SAME_COUNT + 4 rounds, A-Max-Sum until quiescence, "
              "with damping 0, noise 0, every start_messages mode and stability 0.1 (default) or 0, under generated "
              "start/delivery schedules. Oracle: the selected assignment equals the unique brute-force optimum and "
              "no handler raised. Sampling of inputs x schedules.")
LEVEL_NOTE = ("Trusted: SimNet FIFO model, brute-force oracle. 'Enough messages' is a bounded number of rounds well "
              "beyond the factor-graph diameter; unique optimum is a precondition enforced by discarding.")
RULE = ("case = forest DCOP + algorithm + parameters + schedule; discarded unless the optimum is unique; non-trivial = "
        ">=3 variables in one component with factor-graph diameter >= 4; distinct by sha1(case)")
ASSUMPTIONS = ["integer costs in [0,1000] so that float normalisation errors (1e-12) cannot flip a decision"]
BUDGET = {"quick": {"workers": 8, "examples": 150, "seconds": 28},
          "thorough": {"workers": 16, "examples": 2000, "seconds": 600}}

SAME_COUNT = 4


@st.composite
def cases(draw, algos=("maxsum", "amaxsum")):
    # one case in five draws all its costs from a narrow band on a large offset (relative differences below the
    # default stability threshold of 10 %)
    band = st.integers(1000, 1020) if draw(st.integers(0, 4)) == 0 else st.integers(0, 1000)
    desc = draw(gen.dcops(min_vars=1, max_vars=6, min_dom=1, max_dom=3, max_constraints=7, min_constraints=1,
                          arities=(1, 2, 2, 3), var_costs=True, costs=band, shape="forest",
                          kinds=("matrix",)))
    algo = draw(st.sampled_from(list(algos)))
    params = {"damping": 0.0, "noise": 0.0, "damping_nodes": draw(st.sampled_from(["none", "both"])),
              "start_messages": draw(st.sampled_from(["leafs", "leafs_vars", "all"])),
              "stability": draw(st.sampled_from([0.1, 0.1, 0.0]))}
    return {"dcop": desc, "algo": algo, "params": params, "schedule": draw(gen.schedules(100)),
            "seed": draw(st.integers(0, 1000))}


def case_strategy(tier):
    import os
    only = os.environ.get("VF_ALGOS")
    return cases(tuple(only.split(","))) if only else cases()


def factor_graph_adj(desc):
    adj = {v["name"]: set() for v in desc["variables"]}
    for c in desc["constraints"]:
        adj[c["name"]] = set(c["scope"])
        for n in c["scope"]:
            adj[n].add(c["name"])
    return adj


def run_case(case):
    desc, algo = case["dcop"], case["algo"]
    labels = ["algo:" + algo, "obj:" + desc["objective"], "start:" + case["params"]["start_messages"],
              "stability:%s" % case["params"]["stability"]]
    best, args, worst = oracles.brute_force(desc)
    if len(args) != 1:
        return Outcome(discard=True)
    adj = factor_graph_adj(desc)
    diam = oracles.diameter(adj)
    nontrivial = len(desc["variables"]) >= 3 and diam >= 4
    labels.append("diam:%d" % min(diam, 8))
    rounds = 2 * diam + 2 * SAME_COUNT + 4
    try:
        def prep(r):
            if algo == "maxsum":
                with_nb = [c for n, c in r.comps.items() if adj[n]]

                def after(net, act):
                    if all(c.cycle_count >= rounds for c in with_nb):
                        net.halt = True
                r.net.after_step = after

        r = localsearch.run_algo(desc, algo, case["params"], case["schedule"], case["seed"], max_steps=300000,
                                 before_run=prep)
        net = r.net
        labels.append(net.schedule_label())
        if net.errors:
            return Outcome(False, "%s: handler raised %r" % (algo, net.errors[0]), nontrivial, labels,
                           info={"phase": "raise"})
        if net.undeliverable:
            return Outcome(False, "%s: message to unknown computation %r" % (algo, net.undeliverable[0]), nontrivial,
                           labels)
        if net.bound_hit:
            return Outcome(True, "", False, labels + ["bound-hit"], info={"inconclusive": True})
        a = {}
        for v in desc["variables"]:
            val = r.comps[v["name"]].current_value
            if val not in desc["domains"][v["domain"]]:
                return Outcome(False, "%s: %s holds %r, not in its domain" % (algo, v["name"], val), nontrivial, labels)
            a[v["name"]] = val
        if a != args[0]:
            return Outcome(False, "%s(%s, start=%s, stability=%s): selected %r (cost %r) but the unique optimum is %r "
                           "(cost %r) after %d steps" % (algo, desc["objective"], case["params"]["start_messages"],
                                                         case["params"]["stability"], a, oracles.total_cost(desc, a),
                                                         args[0], best, net.step),
                           nontrivial, labels, info={"phase": "optimum", "diam": diam})
    except UnderTestError as e:
        return Outcome(False, "raised %s at %s" % (e, e.frame), True, labels, info={"exc": e.exc_type})
    return Outcome(True, "", nontrivial, labels, info={"steps": net.step, "diam": diam})


def classify(case, out):
    """Listed finding C05-stability-cutoff: with a stability threshold > 0 (0.1 is the default) a computation stops
    sending a message once it changed by less than the threshold, relatively, SAME_COUNT times in a row; on trees whose
    costs sit on a large common offset every update is 'small' and propagation freezes before the exact marginals are
    reached.  Matched only when the same case - same DCOP, schedule, start mode - selects the optimum with the
    threshold set to 0, i.e. the cut-off is the only cause."""
    if case["params"].get("stability", 0) > 0 and (out.info or {}).get("phase") == "optimum":
        again = dict(case, params=dict(case["params"], stability=0.0))
        try:
            if run_case(again).ok:
                return "C05-stability-cutoff"
        except Exception:
            return None
    return None
