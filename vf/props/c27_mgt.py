"""C27 target "mgtsim": the orchestrator's repair bookkeeping over sequences of removal events.

The last clause of C27 - "the orchestrator reports the repair OK only in that case" - is decided by AgentsMgt from
its own bookkeeping (`_agts_state`, `_comps_state`), which lives across events.  Thread-mode runs exercise it with one
or two events and a handful of cases per run; here the real AgentsMgt object is driven directly, on the harness
thread, through the messages it exchanges with agents during a repair:

    removal event -> _agents_removal(leaving)           (real code; SetupRepair messages captured)
    every candidate answers repair_ready                (real handler; RepairRun messages captured)
    the repair places each orphan on one candidate, or fails to place it (generated)
    every candidate answers repair_done with what it selected   (real handler)

The harness plays the agents and keeps the orchestrator's discovery the way the agents' publications would.  Oracle:
whenever the orchestrator writes the status OK for an event (`_dump_repair_metrics`), every computation orphaned by
that event is hosted by exactly one surviving agent according to the harness's ledger; a computation that no
candidate could take, or that the repair failed to place, must not be reported as repaired.
"""
from hypothesis import strategies as st

from ..run import Outcome, UnderTestError, under_test


@st.composite
def cases(draw):
    na = draw(st.integers(3, 6))
    nc = draw(st.integers(2, 6))
    comps = []
    for c in range(nc):
        host = draw(st.integers(0, na - 1))
        # replication level k >= 1: every computation starts with at least one replica (one in ten has none)
        reps = draw(st.lists(st.sampled_from([a for a in range(na) if a != host]),
                             min_size=0 if draw(st.integers(0, 9)) == 0 else 1, max_size=2, unique=True))
        comps.append({"host": host, "replicas": reps})
    events = []
    for _ in range(draw(st.integers(1, 4))):
        events.append({
            # indexes into the list of agents still alive when the event happens
            "leaving": draw(st.lists(st.integers(0, 5), min_size=1, max_size=2, unique=True)),
            # per orphan: which of its candidates takes it (index, modulo), or None = the repair fails to place it
            "choice": draw(st.lists(st.one_of(*([st.integers(0, 3)] * 9 + [st.none()])), min_size=6, max_size=6)),
            # new replicas published after the repair (replication is re-run): per computation, agent indexes
            "new_replicas": draw(st.lists(st.lists(st.integers(0, 5), max_size=2), min_size=6, max_size=6)),
            "done_order": draw(st.integers(0, 719)),
            "unregister_first": draw(st.booleans()),
        })
    return {"kind": "mgtsim", "agents": na, "comps": comps, "events": events,
            "edges": draw(st.lists(st.tuples(st.integers(0, 5), st.integers(0, 5)), max_size=6))}


class _StubLogger:
    def __getattr__(self, name):
        return lambda *a, **k: None


def run_case(case):
    na, nc = case["agents"], len(case["comps"])
    anames = ["a%d" % i for i in range(na)]
    cnames = ["v%d" % i for i in range(nc)]
    labels = ["mgtsim", "events:%d" % len(case["events"])]
    nontrivial = False
    try:
        with under_test():
            import time
            from pydcop.algorithms import AlgorithmDef
            from pydcop.computations_graph import constraints_hypergraph as chg
            from pydcop.dcop.dcop import DCOP
            from pydcop.dcop.objects import AgentDef, Domain, Variable
            from pydcop.dcop.relations import constraint_from_str
            from pydcop.distribution.objects import Distribution
            from pydcop.infrastructure import orchestrator as orch_mod
            from pydcop.infrastructure.discovery import Discovery
            dom = Domain("d", "d", [0, 1])
            variables = [Variable(c, dom) for c in cnames]
            dcop = DCOP("mgt", "min")
            for v in variables:
                dcop.add_variable(v)
            k = 0
            for i, j in case["edges"]:
                i, j = i % nc, j % nc
                if i != j:
                    dcop.add_constraint(constraint_from_str("k%d" % k, "1 if %s == %s else 0" % (cnames[i], cnames[j]),
                                                            variables))
                    k += 1
            dcop.add_agents([AgentDef(a, capacity=1000) for a in anames])
            cg = chg.build_computation_graph(dcop)
            host = {cnames[i]: anames[c["host"]] for i, c in enumerate(case["comps"])}
            replicas = {cnames[i]: set(anames[r] for r in c["replicas"]) for i, c in enumerate(case["comps"])}
            mapping = {a: [c for c in cnames if host[c] == a] for a in anames}
            disc = Discovery("orchestrator", "addr_o")
            for a in anames:
                disc.register_agent(a, "addr_" + a, publish=False)
            for c in cnames:
                disc.register_computation(c, host[c], publish=False)
                for r in sorted(replicas[c]):
                    disc.register_replica(c, r, publish=False)

            class _Agent:
                discovery = disc
                logger = _StubLogger()
                name = "orchestrator"

            class _Orch:
                repair_only = False
                status = "RUNNING"

            algo = AlgorithmDef.build_with_default_param("dsa", {"stop_cycle": 0}, mode="min")
            mgt = orch_mod.AgentsMgt(algo, cg, Distribution(mapping), dcop, _Agent(), _Orch())
            sent = []
            mgt.message_sender = lambda src, dst, msg, prio=None, on_error=None: sent.append((dst, msg))
            mgt.start_time = time.perf_counter()
            statuses = []
            mgt._dump_repair_metrics = lambda status, duration: statuses.append(status)
        alive = list(anames)
        for ei, ev in enumerate(case["events"]):
            if len(alive) <= 1:
                break
            leaving = sorted({alive[i % len(alive)] for i in ev["leaving"]})
            if len(leaving) >= len(alive):
                leaving = leaving[:-1]
            orphans = [c for c in cnames if host[c] in leaving]
            # nobody un-publishes the replicas an agent held when it leaves: the orchestrator's discovery keeps them,
            # and a later event may count an agent that left earlier among the candidates
            cand = {o: sorted(replicas[o] - set(leaving)) for o in orphans}
            if any(a not in alive for o in orphans for a in cand[o]):
                # that agent will never answer: the repair of this event (and, the bookkeeping being what it is, of
                # every later one) is never reported complete - nothing left to check in this history
                labels.append("dead-candidate")
                break
            del sent[:]
            before = len(statuses)
            with under_test():
                mgt._agents_removal(list(leaving))
            candidates = sorted({d[len("_mgt_"):] for d, m in sent if type(m).__name__ == "SetupRepairMessage"})
            expected_cands = sorted({a for o in orphans for a in cand[o]})
            where = "event %d (agents %r leave, orphans %r with candidates %r)" % (ei, leaving, orphans, cand)
            if candidates != expected_cands:
                return Outcome(False, "[mgtsim] %s: repair set-up sent to %r, expected the surviving replica holders %r"
                               % (where, candidates, expected_cands), nontrivial, labels, info={"kind": "mgtsim"})
            # the repair itself, played by the harness
            placed = {}
            for oi, o in enumerate(orphans):
                ch = ev["choice"][cnames.index(o) % 6]
                if cand[o] and ch is not None:
                    placed[o] = cand[o][ch % len(cand[o])]
            lost = [o for o in orphans if o not in placed]
            if lost:
                labels.append("orphan-not-placed") if "orphan-not-placed" not in labels else None
            if any(not cand[o] for o in orphans):
                labels.append("orphan-without-replica") if "orphan-without-replica" not in labels else None

            def publish_departures():
                for a in leaving:
                    for c in [c for c in cnames if host[c] == a and c not in placed]:
                        try:
                            disc.unregister_computation(c, a, publish=False)
                        except Exception:
                            pass
                    try:
                        disc.unregister_agent(a, publish=False)
                    except Exception:
                        pass

            with under_test():
                for a in candidates:
                    mgt._on_repair_ready("_mgt_" + a, orch_mod.RepairReadyMessage(
                        a, ["B%s_%s" % (o, a) for o in orphans if a in cand[o]]), 0)
                # what the agents publish: the new hosts register the computations they took over, the departed
                # agents un-publish theirs and leave - before or after the candidates report (generated)
                for o, a in placed.items():
                    disc.unregister_computation(o, publish=False)
                    disc.register_computation(o, a, publish=False)
                    disc.unregister_replica(o, a, publish=False)
                    host[o] = a
                    replicas[o].discard(a)
                if ev["unregister_first"]:
                    publish_departures()
                order, seed = [], ev["done_order"]
                pool = list(candidates)
                while pool:
                    seed, i = divmod(seed, len(pool))
                    order.append(pool.pop(i))
                for a in order:
                    mgt._on_repair_done("_mgt_" + a, orch_mod.RepairDoneMessage(
                        a, [o for o, h in placed.items() if h == a], {}), 0)
                if not ev["unregister_first"]:
                    publish_departures()
            for o in lost:
                host[o] = None
            alive = [a for a in alive if a not in leaving]
            new = statuses[before:]
            if len(new) > 1:
                return Outcome(False, "[mgtsim] %s: %d repair statuses written for one event: %r" % (where, len(new), new),
                               nontrivial, labels, info={"kind": "mgtsim"})
            if orphans and candidates:
                nontrivial = nontrivial or ei >= 1
            if new and new[0] == "OK" and lost:
                return Outcome(False, "[mgtsim] %s: the orchestrator reports the repair OK although %r are hosted by "
                               "nobody (placed: %r; earlier events: %d)" % (where, lost, placed, ei), nontrivial, labels,
                               info={"kind": "mgtsim", "side": "status"})
            if lost:
                # a computation is gone for good: the deployment is outside what C27 talks about from here on (the
                # orchestrator itself fails on the next event when a neighbour of the lost computation is orphaned)
                labels.append("stopped-after-loss") if "stopped-after-loss" not in labels else None
                break
            # replication is re-run after a repair: new replicas appear on surviving agents
            with under_test():
                for ci, c in enumerate(cnames):
                    if host[c] is None:
                        continue
                    for ai in ev["new_replicas"][ci % 6]:
                        a = alive[ai % len(alive)]
                        if a != host[c] and a not in replicas[c]:
                            disc.register_replica(c, a, publish=False)
                            replicas[c].add(a)
    except UnderTestError as e:
        return Outcome(False, "[mgtsim] raised %s at %s" % (e, e.frame), True, labels, info={"exc": e.exc_type})
    return Outcome(True, "", nontrivial, labels)
