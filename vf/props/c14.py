"""C14  DCOP YAML files round-trip and load faithfully."""
import os
import re

from hypothesis import strategies as st

from .. import build, gen, oracles
from ..run import Outcome, UnderTestError, under_test

PROPERTY = "C14"
LEVEL = "exploration"
TECHNIQUE = "property-based testing (Hypothesis): round-trip dcop_yaml -> load_dcop / load_dcop_from_file (1..3 files)"
LEVEL_TEXT = ("Generated DCOPs restricted to what the YAML format expresses (named int/str domains incl. one-value "
              "domains, variables with/without initial value incl. falsy 0, extensional constraints of arity 1-3, "
              "intentional constraints, agents with capacity, a common default route, symmetric routes, default and "
              "per-computation hosting costs) are dumped with dcop_yaml and read back from a string, from a single "
              "path given as str, from a one-element list and from the text split into 2-3 files. Oracle: structural "
              "equivalence evaluated accessor by accessor and every constraint compared on every assignment against "
              "the reference value of the case description. File names are handed over as list, tuple, generator, iterator, dict keys or "
              "pathlib.Path; a quarter of the all-extensional cases use domains mixing digit strings and the ints they "
              "spell (['01', 1]). Sampling, not proof.")
LEVEL_NOTE = ("Trusted: PyYAML, the reference evaluator. Domain: values without whitespace or '|', plain variables "
              "(the format has no cost-dict variables and dcop_yaml does not write cost functions), symmetric routes, "
              "capacity as only extra agent attribute.")
RULE = ("case = DCOP description + agents + load mode; non-trivial = >=2 variables, >=1 constraint of arity>=2 and "
        ">=1 agent with a specific route or hosting cost; distinct by sha1(case)")
ASSUMPTIONS = ["temporary files are written in the worker's private temp directory"]
BUDGET = {"quick": {"workers": 8, "examples": 500, "seconds": 40},
          "thorough": {"workers": 16, "examples": 9000, "seconds": 480}}

MODES = ["string", "file_str", "file_list1", "file_split"]
# how the file names are handed over in the file modes ("str or iterable of str")
CONTAINERS = ["list", "list", "tuple", "generator", "iterator", "path", "dict_keys"]
# domains mixing digit strings and the ints they spell, by size (values are told apart by type AND text)
DIGIT_DOMS = {1: ["007"], 2: ["01", 1], 3: ["02", 2, "+2"], 4: ["01", "02", 1, 2]}


@st.composite
def agents(draw, comps):
    n = draw(st.sampled_from([0, 1, 2, 2, 3, 3, 4]))
    names = ["a%d" % i for i in draw(st.lists(st.integers(0, 12), min_size=n, max_size=n, unique=True))]
    default_route = draw(st.sampled_from([1, 1, 0, 3, 2.5]))
    routes = {a: {} for a in names}
    for i, a in enumerate(names):
        for b in names[i + 1:]:
            if draw(st.sampled_from([0, 0, 1])):
                r = draw(st.sampled_from([0, 1, 2, 7, 0.5, 10]))
                routes[a][b] = r
                routes[b][a] = r
    out = []
    for a in names:
        ad = {"name": a, "default_route": default_route, "routes": routes[a],
              "default_hosting_cost": draw(st.sampled_from([0, 0, 5, 1.5, 100])), "hosting_costs": {}, "extra": {}}
        for c in draw(st.lists(st.sampled_from(comps + ["unknown_c"]), max_size=3, unique=True)):
            ad["hosting_costs"][c] = draw(st.sampled_from([0, 1, 10, 2.5, 1000]))
        if draw(st.booleans()):
            ad["extra"]["capacity"] = draw(st.sampled_from([0, 1, 10, 100, 55.5]))
        out.append(ad)
    return out


@st.composite
def cases(draw):
    desc = draw(gen.dcops(min_vars=1, max_vars=5, max_constraints=5, var_costs=False, initial=True,
                          arities=(1, 2, 3), costs=gen.mixed_costs))
    comps = [v["name"] for v in desc["variables"]] + [c["name"] for c in desc["constraints"]]
    desc["agents"] = draw(agents(comps))
    mode = draw(st.sampled_from(MODES))
    if all(c["kind"] == "matrix" for c in desc["constraints"]) and draw(st.integers(0, 3)) == 0:
        dn = draw(st.sampled_from(sorted(desc["domains"])))
        old, new = desc["domains"][dn], DIGIT_DOMS[len(desc["domains"][dn])]
        for v in desc["variables"]:
            if v["domain"] == dn and v["initial"] is not None:
                v["initial"] = new[old.index(v["initial"])]
        desc["domains"][dn] = list(new)
    if all(c["kind"] == "matrix" for c in desc["constraints"]) and draw(st.integers(0, 5)) == 0:
        # integer costs beyond 2^53 (a big-M penalty plus a preference) in all-integer tables

        def ints(t):
            return all(ints(x) for x in t) if isinstance(t, list) else (isinstance(t, int) and not isinstance(t, bool))

        def lift(t):
            return [lift(x) for x in t] if isinstance(t, list) else (t + 10 ** 17 + 1 if t % 2 else t)
        for c in desc["constraints"]:
            if ints(c["table"]):
                c["table"] = lift(c["table"])
    return {"dcop": desc, "mode": mode, "nsplit": draw(st.integers(2, 3)),
            "container": draw(st.sampled_from(CONTAINERS))}


def case_strategy(tier):
    return cases()


def _split_sections(text, k):
    """Split the dump at top-level section boundaries into k chunks (concatenation == text)."""
    lines = text.splitlines(keepends=True)
    starts = [i for i, l in enumerate(lines) if re.match(r"^(domains|variables|constraints|agents|routes|hosting_costs):", l)]
    starts = [s for s in starts if s > 0]
    if not starts:
        return [text]
    cuts = starts[:: max(1, len(starts) // k)][: k - 1] if len(starts) >= k - 1 else starts
    cuts = sorted(set(cuts))
    chunks, prev = [], 0
    for c in cuts:
        chunks.append("".join(lines[prev:c]))
        prev = c
    chunks.append("".join(lines[prev:]))
    return [c for c in chunks if c]


def _same_num(a, b):
    a = a.item() if hasattr(a, "item") else a
    b = b.item() if hasattr(b, "item") else b
    if isinstance(b, int) and not isinstance(b, bool) and abs(b) > 2 ** 53:
        return a == b      # an integer no float represents must come back as that very integer
    return oracles.close(a, b, 1e-12)


def compare(desc, orig, loaded):
    """-> None or a description of the first difference between the loaded DCOP and the description."""
    if loaded is None:
        return "loader returned None"
    if loaded.objective != desc["objective"]:
        return "objective %r != %r" % (loaded.objective, desc["objective"])
    if loaded.name != orig.name:
        return "name %r != %r" % (loaded.name, orig.name)
    used_domains = {v["domain"] for v in desc["variables"]}
    if set(loaded.domains) != set(orig.domains):
        return "domains %r != %r" % (sorted(loaded.domains), sorted(orig.domains))
    for dn in orig.domains:
        lv, ov = list(loaded.domains[dn].values), list(desc["domains"][dn])
        if lv != ov or [type(x) for x in lv] != [type(x) for x in ov]:
            return "domain %s values %r != %r" % (dn, lv, ov)
        if loaded.domains[dn].type != orig.domains[dn].type:
            return "domain %s type %r != %r" % (dn, loaded.domains[dn].type, orig.domains[dn].type)
    if set(loaded.variables) != {v["name"] for v in desc["variables"]}:
        return "variables %r != %r" % (sorted(loaded.variables), sorted(v["name"] for v in desc["variables"]))
    for v in desc["variables"]:
        lv = loaded.variables[v["name"]]
        if lv.domain.name != v["domain"]:
            return "variable %s domain %r != %r" % (v["name"], lv.domain.name, v["domain"])
        if lv.initial_value != v["initial"] or type(lv.initial_value) is not type(v["initial"]):
            return "variable %s initial value %r != %r" % (v["name"], lv.initial_value, v["initial"])
    if set(loaded.constraints) != {c["name"] for c in desc["constraints"]}:
        return "constraints %r != %r" % (sorted(loaded.constraints), sorted(c["name"] for c in desc["constraints"]))
    for c in desc["constraints"]:
        lc = loaded.constraints[c["name"]]
        ls = [x.name for x in lc.dimensions]
        if sorted(ls) != sorted(c["scope"]):
            return "constraint %s scope %r != %r" % (c["name"], ls, c["scope"])
        for a in oracles.all_assignments(desc, c["scope"]):
            got, exp = lc(**a), oracles.constraint_value(desc, c, a)
            if not _same_num(got, exp):
                return "constraint %s value %r != %r at %r" % (c["name"], got, exp, a)
    anames = [a["name"] for a in desc["agents"]]
    if set(loaded.agents) != set(anames):
        return "agents %r != %r" % (sorted(loaded.agents), sorted(anames))
    comps = [v["name"] for v in desc["variables"]] + [c["name"] for c in desc["constraints"]] + ["unknown_c", "zz"]
    for a in desc["agents"]:
        la = loaded.agents[a["name"]]
        if "capacity" in a["extra"]:
            if not hasattr(la, "capacity") or la.capacity != a["extra"]["capacity"]:
                return "agent %s capacity %r != %r" % (a["name"], getattr(la, "capacity", None), a["extra"]["capacity"])
        elif "capacity" in la.extra_attr():
            return "agent %s gained a capacity %r" % (a["name"], la.capacity)
        for b in anames + ["stranger"]:
            exp = 0 if b == a["name"] else a["routes"].get(b, a["default_route"])
            if not _same_num(la.route(b), exp):
                return "agent %s route to %s %r != %r" % (a["name"], b, la.route(b), exp)
        for c in comps:
            exp = a["hosting_costs"].get(c, a["default_hosting_cost"])
            if not _same_num(la.hosting_cost(c), exp):
                return "agent %s hosting cost of %s %r != %r" % (a["name"], c, la.hosting_cost(c), exp)
    return None


def run_case(case):
    desc, mode = case["dcop"], case["mode"]
    labels = ["mode:" + mode, "agents:%d" % len(desc["agents"])]
    if any(d in DIGIT_DOMS.values() for d in desc["domains"].values()):
        labels.append("digit-domain")
    if any(len(d) == 1 for d in desc["domains"].values()):
        labels.append("dom1")
    if any(v["initial"] is not None and not v["initial"] for v in desc["variables"]):
        labels.append("falsy-initial")
    if any(c["kind"] == "expr" for c in desc["constraints"]):
        labels.append("intentional")
    if any(c["kind"] == "matrix" for c in desc["constraints"]):
        labels.append("extensional")
    nontrivial = (len(desc["variables"]) >= 2 and any(len(c["scope"]) >= 2 for c in desc["constraints"])
                  and any(a["routes"] or a["hosting_costs"] for a in desc["agents"]))
    paths = []
    try:
        with under_test():
            from pydcop.dcop import yamldcop
            orig, _, _ = build.build_dcop(desc, name="rt")
            text = yamldcop.dcop_yaml(orig)
        if mode == "string":
            with under_test():
                loaded = yamldcop.load_dcop(text)
        else:
            chunks = [text] if mode != "file_split" else _split_sections(text, case["nsplit"])
            labels.append("files:%d" % len(chunks))
            for i, ch in enumerate(chunks):
                p = os.path.join(os.getcwd(), "c14_%d_%d.yaml" % (os.getpid(), i))
                with open(p, "w", encoding="utf-8") as f:
                    f.write(ch)
                paths.append(p)
            arg = paths[0] if mode == "file_str" else list(paths)
            cont = case.get("container", "list")
            labels.append("container:" + (cont if mode != "file_str" or cont == "path" else "str"))
            if cont == "path":
                import pathlib
                arg = pathlib.Path(arg) if mode == "file_str" else [pathlib.Path(x) for x in arg]
            elif mode != "file_str":
                arg = {"list": list, "tuple": tuple, "generator": lambda l: (x for x in l), "iterator": iter,
                       "dict_keys": lambda l: dict.fromkeys(l).keys()}[cont](arg)
            with under_test():
                loaded = yamldcop.load_dcop_from_file(arg)
        with under_test():
            why = compare(desc, orig, loaded)
        if why:
            return Outcome(False, "[%s] %s" % (mode, why), nontrivial, labels, info={"phase": "compare"})
    except UnderTestError as e:
        return Outcome(False, "[%s] raised %s at %s" % (mode, e, e.frame), nontrivial, labels,
                       info={"exc": e.exc_type, "frame": e.frame})
    finally:
        for p in paths:
            try:
                os.unlink(p)
            except OSError:
                pass
    return Outcome(True, "", nontrivial, labels)
