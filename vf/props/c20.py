"""C20  Discovery views converge to the directory for subscribed items."""
from hypothesis import strategies as st

from .. import gen, simnet
from ..run import Outcome, UnderTestError, under_test

PROPERTY = "C20"
LEVEL = "exploration"
TECHNIQUE = ("model-based property testing (Hypothesis): generated histories of discovery operations interleaved with "
             "generated message deliveries on SimNet, real Directory/Discovery objects, checked against a model of "
             "registrations and subscriptions")
LEVEL_TEXT = ("A real Directory (with its DirectoryComputation) and 3 real Discovery instances are wired through SimNet "
              "channels. Generated histories (up to 30 operations) mix valid operations — register/unregister agent, "
              "register/move/unregister computation on its hosting agent, publish/unpublish replica, "
              "subscribe_{agent,computation,replica} with no callback, a callback or a one-shot callback, the "
              "matching unsubscribes — with deliveries of pending discovery messages in a generated order. After a "
              "final drain the oracle compares, for every agent A and every item A is still unambiguously subscribed "
              "to according to the model, A's view (agent_address / computation_agent / replica_agents) with the "
              "directory's data, and requires the last callback event of every live callback to match the final state. "
              "The same comparison runs at every quiescent point "
              "inside a history. Agent names come from generated sets that include prefix pairs (a1 / a10). Sampling of "
              "histories x delivery orders.")
LEVEL_NOTE = ("Trusted: the subscription model in this file and SimNet's FIFO channels. The model is deliberately "
              "conservative: an item counts as 'still subscribed' only when every reading of the API agrees (mixed "
              "callback / no-callback subscriptions followed by a partial unsubscribe, and anything touched by an agent "
              "un-registration, are excluded and counted). Exceptions raised by a valid API call or inside a handler "
              "are recorded; they alarm only through a stale subscribed view.")
RULE = ("case = list of operations (incl. deliver steps) over 3 agents, 3 computations; non-trivial = >=1 subscription "
        "asserted at the end on an item that changed after the subscription, with deliveries interleaved; distinct by "
        "sha1(case)")
ASSUMPTIONS = ["all Discovery objects live in one process; addresses are opaque strings"]
BUDGET = {"quick": {"workers": 8, "examples": 1500, "seconds": 45},
          "thorough": {"workers": 16, "examples": 24000, "seconds": 600}}

AGENTS = ["a1", "a2", "a3"]
# agent names are part of the case: sets where one name is a prefix of another (a1 / a10), as in any deployment with
# more than nine agents
AGENT_SETS = [["a1", "a2", "a3"], ["a1", "a2", "a3"], ["a1", "a10", "a2"], ["a12", "a1", "a10"], ["agt", "ag", "a"]]
COMPS = ["c1", "c2", "c10"]
MODES = ["nocb", "cb", "oneshot"]

op = st.one_of(
    st.tuples(st.just("reg_comp"), st.integers(0, 2), st.integers(0, 2)),
    st.tuples(st.just("reg_comp"), st.integers(0, 2), st.integers(0, 2)),
    st.tuples(st.just("unreg_comp"), st.integers(0, 2), st.just(0)),
    st.tuples(st.just("move_comp"), st.integers(0, 2), st.integers(0, 2)),
    st.tuples(st.just("pub_replica"), st.integers(0, 2), st.integers(0, 2)),
    st.tuples(st.just("unpub_replica"), st.integers(0, 2), st.integers(0, 2)),
    st.tuples(st.just("reg_agent"), st.integers(0, 2), st.just(0)),
    st.tuples(st.just("unreg_agent"), st.integers(0, 2), st.just(0)),
    st.tuples(st.sampled_from(["sub_agent", "sub_comp", "sub_comp", "sub_replica", "sub_replica"]),
              st.integers(0, 2), st.integers(0, 2), st.sampled_from(MODES)),
    st.tuples(st.sampled_from(["unsub_agent", "unsub_comp", "unsub_replica"]), st.integers(0, 2), st.integers(0, 2),
              st.sampled_from(["all", "one"])),
    st.tuples(st.just("deliver"), st.integers(1, 6), st.integers(0, 1000)),
    st.tuples(st.just("deliver"), st.integers(1, 6), st.integers(0, 1000)),
)


sub_op = st.tuples(st.sampled_from(["sub_agent", "sub_comp", "sub_comp", "sub_replica", "sub_replica"]),
                   st.integers(0, 2), st.integers(0, 2), st.sampled_from(MODES))
change_op = st.one_of(
    st.tuples(st.just("reg_comp"), st.integers(0, 2), st.integers(0, 2)),
    st.tuples(st.just("move_comp"), st.integers(0, 2), st.integers(0, 2)),
    st.tuples(st.just("unreg_comp"), st.integers(0, 2), st.just(0)),
    st.tuples(st.just("pub_replica"), st.integers(0, 2), st.integers(0, 2)),
    st.tuples(st.just("unpub_replica"), st.integers(0, 2), st.integers(0, 2)),
    st.tuples(st.just("deliver"), st.integers(1, 6), st.integers(0, 1000)),
)


def classify(case, out):
    """Known finding C20-inflight-race: directory and discovery apply publications, un-publications and
    notifications about an item in arrival order, with no version or owner check.  When an operation about an item
    (register / move / unregister / (un)subscribe) is issued while messages about the SAME item are still in flight,
    a stale publication or notification can be applied last and a subscribed view ends stale.  Matches only a stale
    view (or last callback event) of an item for which the history contains such an operation; item-quiescent
    histories are never matched."""
    if out.info.get("phase") in ("view", "callback") and out.info.get("racy_item"):
        return "C20-inflight-race"
    # Known finding C20-resubscribe-stale-cache: an agent that was subscribed to an item, unsubscribed, and
    # subscribes again after the item changed (e.g. the computation was removed) gets no notification for an item
    # the directory no longer knows, so the entry cached during the first subscription period stays in its view.
    if out.info.get("phase") == "view" and out.info.get("gap_change"):
        return "C20-resubscribe-stale-cache"
    return None


def case_strategy(tier):
    # a few registrations, a few subscriptions, then anything (changes, unsubscribes, deliveries ...)
    pre = st.lists(st.one_of(st.tuples(st.just("reg_comp"), st.integers(0, 2), st.integers(0, 2)), sub_op,
                             st.tuples(st.just("deliver"), st.integers(1, 6), st.integers(0, 1000))),
                   min_size=0, max_size=8)
    body = st.lists(st.one_of(op, change_op, change_op), min_size=1, max_size=26)
    # in half of the cases every operation is followed by a full drain (item-quiescent histories: no race at all)
    quiet = st.sampled_from([False, True])

    def assemble(t):
        pre_ops, body_ops, q = t
        out = []
        for o in pre_ops + body_ops:
            out.append(list(o))
            if q and o[0] != "deliver":
                out.append(["deliver", 60, 0])
        return {"ops": out}

    # focused histories: everything is about one computation c, one subscriber A and one or two hosts
    @st.composite
    def focused(draw):
        c = draw(st.integers(0, 2))
        A = draw(st.integers(0, 2))
        H = draw(st.sampled_from([x for x in range(3) if x != A]))
        kinds = ["sub_comp", "sub_replica", "sub_agent"]
        ops = [("reg_comp", c, H)]
        if draw(st.booleans()):
            ops.append(("pub_replica", c, draw(st.integers(0, 2))))
        for _ in range(draw(st.integers(1, 4))):
            k = draw(st.sampled_from(kinds))
            ops.append((k, A, H if k == "sub_agent" else c, draw(st.sampled_from(MODES))))
        for _ in range(draw(st.integers(0, 2))):
            k = draw(st.sampled_from(kinds))
            ops.append(("un" + k, A, H if k == "sub_agent" else c, draw(st.sampled_from(["all", "one"]))))
        for _ in range(draw(st.integers(1, 4))):
            ops.append(draw(st.sampled_from([("unreg_comp", c, 0), ("reg_comp", c, H), ("move_comp", c, draw(st.integers(0, 2))),
                                             ("pub_replica", c, draw(st.integers(0, 2))),
                                             ("unpub_replica", c, draw(st.integers(0, 2))),
                                             ("sub_comp", A, c, "cb"), ("unsub_comp", A, c, "all")])))
        return [], ops, draw(st.sampled_from([True, True, False]))

    def weave(draw, threads):
        """Interleave per-agent operation lists (each keeps its own order) with deliver steps in between."""
        threads = [list(t) for t in threads if t]
        out = []
        while threads:
            i = draw(st.integers(0, len(threads) - 1))
            out.append(threads[i].pop(0))
            if not threads[i]:
                threads.pop(i)
            d = draw(st.sampled_from([None, None, (1, 0), (2, 1), (3, 7), (60, 0)]))
            if d:
                out.append(("deliver", d[0], draw(st.integers(0, 1000)) if d[1] else 0))
        return out

    # replica subscriptions: a host H, a subscriber A (subscribes to the computation then to its replicas, possibly
    # after having recorded a replica itself), a third agent B; publications, subscriptions and deliveries interleave
    @st.composite
    def replica_story(draw):
        c = draw(st.integers(0, 2))
        H, A, B = draw(st.permutations([0, 1, 2]))
        m = lambda: draw(st.sampled_from(MODES))
        first = weave(draw, [[("reg_comp", c, H)],
                             [("sub_comp", A, c, m())] + ([("sub_replica", A, c, m())] if draw(st.booleans()) else []),
                             [("sub_comp", B, c, "nocb")] if draw(st.booleans()) else []])
        if draw(st.booleans()):
            first.append(("deliver", 60, 0))
        second = weave(draw, [[("pub_replica", c, A)] if draw(st.booleans()) else [],
                              [("sub_replica", A, c, m())] if draw(st.booleans()) else [],
                              [("pub_replica", c, H)] if draw(st.booleans()) else [],
                              [("pub_replica", c, B)] if draw(st.booleans()) else []])
        # A's own replica first, then its first subscription with a callback
        if draw(st.booleans()):
            second = [("pub_replica", c, A), ("sub_replica", A, c, draw(st.sampled_from(["cb", "oneshot"])))] + second
        if draw(st.integers(0, 2)) == 0:
            # several callbacks of one agent on the replicas of c, then one of them is withdrawn
            second += [("sub_replica", A, c, "cb") for _ in range(draw(st.integers(1, 2)))]
            second += [("deliver", 60, 0)] if draw(st.booleans()) else []
            second += [("unsub_replica", A, c, "one")]
        third = weave(draw, [[draw(st.sampled_from([("pub_replica", c, H), ("pub_replica", c, B), ("unpub_replica", c, H),
                                                    ("unpub_replica", c, B), ("unpub_replica", c, A)]))
                              for _ in range(draw(st.integers(1, 3)))]])
        return [], first + second + third, False

    # agents leaving and (re-)joining while others are subscribed to them by name
    @st.composite
    def rejoin_story(draw):
        X, A, B = draw(st.permutations([0, 1, 2]))
        # A may hold several callbacks on X (persistent and one-shot ones, in either order)
        first = [("sub_agent", A, X, draw(st.sampled_from(MODES)))]
        if draw(st.booleans()):
            first.append(("sub_agent", A, X, draw(st.sampled_from(["cb", "oneshot", "oneshot"]))))
        ops = weave(draw, [first,
                           [("sub_agent", B, X, draw(st.sampled_from(MODES)))] if draw(st.booleans()) else []])
        for _ in range(draw(st.integers(1, 3))):
            ops += [("unreg_agent", X, 0)]
            ops += [("deliver", draw(st.sampled_from([1, 3, 60])), 0)] if draw(st.booleans()) else []
            ops += [("reg_agent", X, 0)]
            ops += [("deliver", draw(st.sampled_from([1, 3, 60])), 0)] if draw(st.booleans()) else []
            if draw(st.integers(0, 3)) == 0:
                ops += [("sub_agent", A, X, "nocb")]
        return [], ops, draw(st.booleans())

    histories = st.one_of(st.tuples(pre, body, quiet), focused(), replica_story(), rejoin_story()).map(assemble)
    return st.tuples(histories, st.sampled_from(AGENT_SETS)).map(lambda t: dict(t[0], agents=t[1]))


class Sub:
    """Model of one (agent, kind, item) subscription."""

    def __init__(self):
        self.dir_subscribed = False   # last message sent to the directory was 'subscribe'
        self.ambiguous = False
        self.nocb = False
        self.cbs = []                 # live callback recorders
        self.key_present = False      # item key present in the discovery's callback table
        self.since = None             # op index of the subscription currently in force
        self.ended_at = None          # op index at which an earlier subscription ended
        self.gap_change = False       # the item changed between two subscription periods (stale cache risk)


class Recorder:
    def __init__(self, oneshot):
        self.events = []
        self.oneshot = oneshot
        self.fired = False

    def __call__(self, evt, item, value):
        self.events.append((evt, item, value))
        self.fired = True


def run_case(case):
    ops = case["ops"]
    AGENTS = case.get("agents") or ["a1", "a2", "a3"]
    labels = ["names:prefix"] if any(x != y and y.startswith(x) for x in AGENTS for y in AGENTS) else []
    raised = []
    try:
        with under_test():
            from pydcop.infrastructure.discovery import Directory, Discovery
            net = simnet.SimNet([], max_steps=50000)
            ddisc = Discovery("D", "addr_D")
            directory = Directory(ddisc)
            net.add(directory.directory_computation)
            net.add(ddisc.discovery_computation)
            ddisc.use_directory("D", "addr_D")
            disc = {}
            for a in AGENTS:
                disc[a] = Discovery(a, "addr_" + a)
                net.add(disc[a].discovery_computation)
                disc[a].use_directory("D", "addr_D")
            for c in net.comps.values():
                c.start()
            net.started = list(net.comps)
        # ---- model
        registered = set()
        host = {c: None for c in COMPS}
        replicas = {c: set() for c in COMPS}
        subs = {(a, k, x): Sub() for a in AGENTS for k in ("agent", "comp", "replica")
                for x in (AGENTS if k == "agent" else COMPS)}
        racy = set()                # computations re-registered while another agent's messages about them were in flight
        rejoin_count = {}
        tainted_agents = set()      # agents that were un-registered at some point: everything about them is excluded
        changed_at = {}             # (kind, item) -> op index of last change
        interleaved = [False]

        def api(f, *a, **k):
            try:
                with under_test():
                    return f(*a, **k)
            except UnderTestError as e:
                raised.append((f.__name__, a[:2], e.exc_type))
                return None

        def deliver(n, pick):
            for i in range(n):
                acts = net.enabled(False)
                if not acts:
                    return
                net.step += 1
                net._run_action(acts[(pick + i * 7) % len(acts)])

        # prelude: every agent registers itself and the network is drained (what agents do when they start)
        for a in AGENTS:
            registered.add(a)
            api(disc[a].register_agent, a, "addr_" + a)
        deliver(100, 0)

        def inflight(item):
            for q in list(net.channels.values()) + [[(s, m) for s, _, m in l] for l in net.lane.values()]:
                for _, m in q:
                    for f in ("computation", "replica", "agent", "agents"):
                        if getattr(m, f, None) == item:
                            return True
            return False

        # ---- oracle: at a quiescent point (nothing in flight) every subscribed view equals the directory's data
        state = {"checked": 0, "nontrivial": False}

        def oracle():
            checked = 0
            nontrivial = state["nontrivial"]
            agreed = set()
            disagreed = set()
            handler_errors = list(net.errors)
            for (a, k, x), s in sorted(subs.items()):
                if not s.dir_subscribed or s.ambiguous or a in tainted_agents or a not in registered:
                    continue
                if k == "agent" and x in tainted_agents and not rejoin_count.get(x):
                    continue   # the agent left and never came back: nothing to converge to
                if k == "agent":
                    exp = _get(ddisc.agent_address, x)
                    got = _get(disc[a].agent_address, x)
                elif k == "comp":
                    exp = _get(directory.computation_agent, x)
                    got = _get(disc[a].computation_agent, x)
                else:
                    exp = _get(ddisc.replica_agents, x)
                    got = _get(disc[a].replica_agents, x)
                    if exp == "<unknown>" or got == "<unknown>":
                        # the computation itself is unknown on one side: replica sets are not comparable
                        continue
                checked += 1
                (agreed if exp == got else disagreed).add(x)
                later = changed_at.get((k, x), -1) > (s.since if s.since is not None else 10**9)
                nontrivial = nontrivial or (later and interleaved[0])
                if exp != got:
                    return Outcome(False, "%s is subscribed to %s %s since op %s: its view says %r, the directory says %r "
                                   "(operations that raised: %r; handler errors: %r)" % (
                                       a, k, x, s.since, got, exp, raised[:3], [e[2:4] for e in handler_errors[:2]]),
                                   True, labels + ["kind:" + k], info={"phase": "view", "kind": k, "raised": len(raised), "racy_item": x in racy, "gap_change": s.gap_change,
                                                                       "handler_errors": len(handler_errors)})
                for rec in s.cbs:
                    if rec.oneshot or not rec.events:
                        continue
                    evt, item, value = rec.events[-1]
                    ok = True
                    if k == "agent":
                        ok = (evt == "agent_added" and exp != "<unknown>" and value == exp) or \
                             (evt == "agent_removed" and exp == "<unknown>")
                    elif k == "comp":
                        ok = (evt == "computation_added" and value == exp) or (evt == "computation_removed" and exp == "<unknown>")
                    if not ok:
                        return Outcome(False, "%s: last callback event for %s %s is %r but the directory says %r" % (
                            a, k, x, rec.events[-1], exp), True, labels, info={"phase": "callback", "kind": k, "racy_item": x in racy})
            state["checked"] = max(state["checked"], checked)
            state["nontrivial"] = nontrivial
            # the item's views all agree with the directory and nothing is in flight: an earlier in-flight
            # race about it has left no trace (the listed race finding is about views that END stale)
            for x in agreed - disagreed:
                racy.discard(x)
            return None

        for idx, o in enumerate(ops):
            kind = o[0]
            CURRENT[0] = idx
            if kind != "deliver":
                # an operation about an item issued while messages about the same item are still in flight
                if kind.endswith("_agent") and not kind.startswith(("sub", "unsub")):
                    item = AGENTS[o[1]]
                elif kind in ("sub_agent", "unsub_agent"):
                    item = AGENTS[o[2]]
                elif kind.startswith(("sub_", "unsub_")):
                    item = COMPS[o[2]]
                else:
                    item = COMPS[o[1]]
                # The listed race needs two versions of the item in flight: a change (or an un-subscription, whose
                # effect depends on what is still travelling) issued while messages about the item are in flight.
                # A first subscription racing with a publication is not part of it: whichever the directory handles
                # first, the subscriber must end with the directory's data.
                plain_sub = kind.startswith("sub_") and not subs[(AGENTS[o[1]], kind[4:], item)].ended_at
                if (inflight(item) and not plain_sub) or kind == "move_comp":
                    racy.add(item)
            if kind == "deliver":
                if net.pending():
                    interleaved[0] = True
                deliver(o[1], o[2])
                if not net.pending() and not net.errors:
                    bad = oracle()
                    if bad is not None:
                        return bad
            elif kind == "reg_agent":
                a = AGENTS[o[1]]
                if a not in registered:
                    # a (re-)joining agent; after a leave it comes back with another address
                    registered.add(a)
                    changed_at[("agent", a)] = idx
                    rejoin_count[a] = rejoin_count.get(a, 0) + (1 if a in tainted_agents else 0)
                    api(disc[a].register_agent, a, "addr%s_%s" % (rejoin_count[a] or "", a))
            elif kind == "unreg_agent":
                a = AGENTS[o[1]]
                if a in registered and not any(h == a for h in host.values()) and not any(a in r for r in replicas.values()):
                    registered.discard(a)
                    tainted_agents.add(a)
                    changed_at[("agent", a)] = idx
                    api(disc[a].unregister_agent, a)
            elif kind in ("reg_comp", "move_comp"):
                c, a = COMPS[o[1]], AGENTS[o[2]]
                if a not in registered:
                    continue
                if kind == "move_comp":
                    if host[c] is None or host[c] == a:
                        continue
                    old = host[c]
                    api(disc[old].unregister_computation, c, old)
                    s = subs[(old, "comp", c)]
                    _local_unsub(s, "all")
                    host[c] = None
                elif host[c] is not None:
                    continue
                host[c] = a
                changed_at[("comp", c)] = idx
                api(disc[a].register_computation, c, a, "addr_" + a)
            elif kind == "unreg_comp":
                c = COMPS[o[1]]
                a = host[c]
                if a is None:
                    continue
                host[c] = None
                changed_at[("comp", c)] = idx
                api(disc[a].unregister_computation, c, a)
                _local_unsub(subs[(a, "comp", c)], "all")  # the host drops its own subscription when un-publishing
            elif kind == "pub_replica":
                c, a = COMPS[o[1]], AGENTS[o[2]]
                if a not in registered or a in replicas[c] or host[c] is None:
                    continue
                try:
                    with under_test():
                        disc[a].computation_agent(c)
                except UnderTestError:
                    continue   # the agent does not know the computation yet: register_replica documents an error
                replicas[c].add(a)
                changed_at[("replica", c)] = idx
                api(disc[a].register_replica, c, a)
            elif kind == "unpub_replica":
                c, a = COMPS[o[1]], AGENTS[o[2]]
                if a in replicas[c]:
                    replicas[c].discard(a)
                    changed_at[("replica", c)] = idx
                    api(disc[a].unregister_replica, c, a)
            elif kind.startswith("sub_"):
                k = kind[4:]
                a = AGENTS[o[1]]
                x = (AGENTS if k == "agent" else COMPS)[o[2]]
                if a not in registered:
                    continue
                if k == "replica" and not subs[(a, "comp", x)].dir_subscribed:
                    # every caller in the code base makes sure the computation is known to its discovery (or at least
                    # subscribed to, so that FIFO brings its registration first) before dealing with its replicas:
                    # a replica notification for a computation the agent cannot know is dropped with an error
                    try:
                        with under_test():
                            disc[a].computation_agent(x)
                    except UnderTestError:
                        continue
                s = subs[(a, k, x)]
                mode = o[3]
                fn = getattr(disc[a], "subscribe_" + ("computation" if k == "comp" else k))
                starting = not s.dir_subscribed
                if starting and s.ended_at is not None and max(
                        changed_at.get((k, x), -1), changed_at.get(("comp", x), -1) if k == "replica" else -1) >= s.ended_at:
                    s.gap_change = True
                if mode == "nocb":
                    s.nocb = True
                    s.dir_subscribed = True
                    s.since = s.since if s.since is not None else idx
                    api(fn, x)
                else:
                    rec = Recorder(mode == "oneshot")
                    if not s.key_present:
                        s.dir_subscribed = True
                        s.since = s.since if s.since is not None else idx
                    s.key_present = True
                    s.cbs.append(rec)
                    api(fn, x, rec, mode == "oneshot")
            elif kind.startswith("unsub_"):
                k = kind[6:]
                a = AGENTS[o[1]]
                x = (AGENTS if k == "agent" else COMPS)[o[2]]
                if a not in registered:
                    continue
                s = subs[(a, k, x)]
                fn = getattr(disc[a], "unsubscribe_" + ("computation" if k == "comp" else k))
                live = [r for r in s.cbs if not (r.oneshot and r.fired)]
                if o[3] == "one":
                    if not live:
                        continue  # un-subscribing an unknown callback raises by contract: not a valid operation
                    rec = live[0]
                    api(fn, x, rec)
                    s.cbs.remove(rec)
                    remaining = [r for r in s.cbs if not (r.oneshot and r.fired)]
                    if not remaining:
                        s.cbs = []
                        s.key_present = False
                        if s.nocb:
                            s.ambiguous = True    # callback gone, the no-callback subscription's fate is undocumented
                        s.dir_subscribed = False
                        s.since = None
                        s.ended_at = idx
                else:
                    api(fn, x)
                    if s.key_present and not live:
                        s.ambiguous = True        # only fired one-shot callbacks left: nothing is sent to the directory
                    _local_unsub(s, "all")
        # ---- drain
        for _ in range(200):
            if not net.pending():
                break
            deliver(500, 0)
        handler_errors = list(net.errors)
        bad = oracle()
        if bad is not None:
            return bad
        checked, nontrivial = state["checked"], state["nontrivial"]
        labels.append("asserted:%d" % min(checked, 4))
        if raised:
            labels.append("api-raised")
        if handler_errors:
            labels.append("handler-raised")
        return Outcome(True, "", nontrivial, labels, info={"asserted": checked, "raised": [r[0] for r in raised][:4]})
    except UnderTestError as e:
        return Outcome(False, "raised %s at %s" % (e, e.frame), True, labels, info={"exc": e.exc_type})


CURRENT = [0]


def _local_unsub(s, which):
    if s.dir_subscribed:
        s.ended_at = CURRENT[0]
    s.cbs = []
    s.key_present = False
    s.nocb = False
    s.dir_subscribed = False
    s.since = None


def _get(f, x):
    try:
        v = f(x)
        return sorted(v) if isinstance(v, (set, frozenset)) else v
    except Exception:
        return "<unknown>"
