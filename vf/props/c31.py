"""C31  Agent definitions honour their cost model, also when mass-created."""
import itertools

from hypothesis import strategies as st

from ..run import Outcome, UnderTestError, under_test

PROPERTY = "C31"
LEVEL = "exploration"
TECHNIQUE = "property-based testing (Hypothesis): generated AgentDef / create_agents arguments vs a reference cost model"
LEVEL_TEXT = ("Generated agent definitions (arbitrary route tables, hosting tables, defaults, omitted arguments, extra "
              "attributes) and mass creations with list, range and tuple-of-lists indexes. Oracle: a reference cost "
              "model evaluated from the case description (route to self 0, specific else default; hosting specific "
              "else default; extras readable) applied accessor by accessor to the individually built agent and to "
              "every mass-created agent, which must also carry the documented key and name. Sampling, not proof.")
LEVEL_NOTE = "Trusted: the reference model in this file (a dozen lines). Numeric values are ints or dyadic floats."
RULE = ("case = AgentDef arguments + probes (+ create_agents index spec); non-trivial = specific routes and hosting "
        "costs both non-empty, or a mass creation of >=2 agents with non-default arguments; distinct by sha1(case)")
ASSUMPTIONS = []
BUDGET = {"quick": {"workers": 8, "examples": 2000, "seconds": 30},
          "thorough": {"workers": 16, "examples": 48000, "seconds": 450}}

AGENTS = ["a1", "a2", "a10", "b", "a_1"]
COMPS = ["c1", "c2", "v1", "v10", "f_1"]
# ... including integer costs that no float represents exactly (a big-M penalty plus a small preference)
nums = st.sampled_from([0, 1, 2, 5, 0.5, 7.25, 100, 1000000, 2 ** 53 + 1, 10 ** 18 + 7])
extras = st.dictionaries(st.sampled_from(["capacity", "foo", "pref", "zone", "_zone_id"]),
                         st.one_of(st.integers(0, 1000), st.sampled_from(["x", "room1", 2.5])), max_size=3)


@st.composite
def agent_args(draw):
    a = {}
    if draw(st.booleans()):
        a["default_route"] = draw(nums)
    if draw(st.booleans()):
        a["routes"] = draw(st.dictionaries(st.sampled_from(AGENTS + ["self"]), nums, max_size=4))
    if draw(st.booleans()):
        a["default_hosting_cost"] = draw(nums)
    if draw(st.booleans()):
        a["hosting_costs"] = draw(st.dictionaries(st.sampled_from(COMPS), nums, max_size=4))
    a["extra"] = draw(extras)
    return a


@st.composite
def cases(draw):
    case = {"args": draw(agent_args()), "name": draw(st.sampled_from(AGENTS))}
    kind = draw(st.sampled_from(["single", "list", "range", "tuple"]))
    case["kind"] = kind
    if kind == "list":
        case["indexes"] = draw(st.lists(st.one_of(st.integers(0, 30), st.sampled_from(["x", "y", "1", "01"])),
                                        min_size=0, max_size=4, unique_by=str))
    elif kind == "range":
        start = draw(st.integers(0, 12))
        case["indexes"] = [start, start + draw(st.integers(0, 12)), draw(st.sampled_from([1, 1, 2, 3]))]
    elif kind == "tuple":
        k = draw(st.integers(1, 3))
        case["indexes"] = [draw(st.lists(st.sampled_from(["1", "2", "a", "b", "10"]), min_size=0, max_size=3,
                                         unique=True)) for _ in range(k)]
        if draw(st.booleans()):
            case["separator"] = draw(st.sampled_from(["_", "-", "", "__"]))
    case["prefix"] = draw(st.sampled_from(["a", "agt_", ""]))
    case["other_default"] = draw(nums)
    return case


def case_strategy(tier):
    return cases()


def check_agent(agt, name, args):
    """Compare an AgentDef with the reference cost model; -> None or a difference."""
    if agt.name != name:
        return "name %r != %r" % (agt.name, name)
    dr = args.get("default_route", 1)
    routes = args.get("routes") or {}
    for other in AGENTS + ["self", "stranger", name]:
        exp = 0 if other == name else routes.get(other, dr)
        got = agt.route(other)
        if got != exp:
            return "route(%r) = %r, expected %r" % (other, got, exp)
    if agt.default_route != dr:
        return "default_route %r != %r" % (agt.default_route, dr)
    dh = args.get("default_hosting_cost", 0)
    hc = args.get("hosting_costs") or {}
    for c in COMPS + ["unknown"]:
        exp = hc.get(c, dh)
        got = agt.hosting_cost(c)
        if got != exp:
            return "hosting_cost(%r) = %r, expected %r" % (c, got, exp)
    if agt.default_hosting_cost != dh:
        return "default_hosting_cost %r != %r" % (agt.default_hosting_cost, dh)
    for k, v in args["extra"].items():
        try:
            got = getattr(agt, k)
        except AttributeError:
            return "extra attribute %r not readable" % k
        if got != v:
            return "extra attribute %r = %r, expected %r" % (k, got, v)
    if dict(agt.extra_attr()) != args["extra"]:
        return "extra_attr() = %r, expected %r" % (dict(agt.extra_attr()), args["extra"])
    return None


def _kwargs(args, mass=False):
    kw = {}
    for k in ("default_route", "routes", "hosting_costs"):
        if k in args:
            kw[k] = dict(args[k]) if isinstance(args[k], dict) else args[k]
    if "default_hosting_cost" in args:
        # the mass-creation helper documents the plural spelling for this argument
        kw["default_hosting_costs" if mass else "default_hosting_cost"] = args["default_hosting_cost"]
    kw.update(args["extra"])
    return kw


def run_case(case):
    args, kind = case["args"], case["kind"]
    labels = ["kind:" + kind]
    if args.get("routes"):
        labels.append("routes")
    if args.get("hosting_costs"):
        labels.append("hosting")
    if args["extra"]:
        labels.append("extra")
    nontrivial = bool(args.get("routes")) and bool(args.get("hosting_costs"))
    try:
        with under_test():
            from pydcop.dcop.objects import AgentDef, create_agents
            single = AgentDef(case["name"], **_kwargs(args))
            why = check_agent(single, case["name"], args)
        if why:
            return Outcome(False, "AgentDef(%r, %r): %s" % (case["name"], _kwargs(args), why), nontrivial, labels)
        if "hosting_costs" in args:
            # one table object given to two definitions with different defaults (create_agents hands one dict
            # to a whole batch): a lookup on one agent must not change what the other answers
            table, dh2 = dict(args["hosting_costs"]), case.get("other_default", 3)
            with under_test():
                first = AgentDef(case["name"], hosting_costs=table,
                                 default_hosting_cost=args.get("default_hosting_cost", 0))
                other = AgentDef("other", hosting_costs=table, default_hosting_cost=dh2)
                asked = [(c, first.hosting_cost(c), other.hosting_cost(c)) for c in COMPS]
            labels.append("shared-table")
            for c, _, got in asked:
                exp = args["hosting_costs"].get(c, dh2)
                if got != exp or type(got) is not type(exp):
                    return Outcome(False, "two AgentDef sharing the table %r: after %r was asked, the agent with default "
                                          "%r answers hosting_cost(%r) = %r, expected %r"
                                   % (args["hosting_costs"], case["name"], dh2, c, got, exp), nontrivial, labels)
        if kind == "single":
            return Outcome(True, "", nontrivial, labels)
        prefix = case["prefix"]
        expected = {}  # key -> name
        if kind == "list":
            idx = list(case["indexes"])
            for i in idx:
                expected[prefix + str(i)] = prefix + str(i)
        elif kind == "range":
            idx = range(*case["indexes"])
            digits = len(str(idx.stop - 1))
            for i in idx:
                nm = "%s%0*d" % (prefix, digits, i)
                expected[nm] = nm
        else:
            idx = tuple(list(x) for x in case["indexes"])
            sep = case.get("separator", "_")
            for combi in itertools.product(*idx):
                expected[tuple(combi)] = prefix + sep.join(combi)
        kw = _kwargs(args, mass=True)
        if "separator" in case:
            kw["separator"] = case["separator"]
        with under_test():
            created = create_agents(prefix, idx, **kw)
        labels.append("created:%d" % min(len(expected), 5))
        nontrivial = len(expected) >= 2 and any(k in args for k in ("default_hosting_cost", "routes", "hosting_costs",
                                                                     "default_route"))
        if set(created) != set(expected):
            return Outcome(False, "create_agents keys %r != expected %r" % (sorted(map(str, created)),
                                                                            sorted(map(str, expected))),
                           nontrivial, labels)
        for key, nm in expected.items():
            with under_test():
                why = check_agent(created[key], nm, args)
                individually = AgentDef(nm, **_kwargs(args))
                same = (why is None and created[key].route("a2") == individually.route("a2")
                        and created[key].hosting_cost("c1") == individually.hosting_cost("c1"))
            if why or not same:
                return Outcome(False, "create_agents(%r, %r, %r)[%r]: %s" % (prefix, case["indexes"], kw, key,
                                                                             why or "differs from individual build"),
                               nontrivial, labels, info={"phase": "mass"})
    except UnderTestError as e:
        return Outcome(False, "raised %s at %s" % (e, e.frame), nontrivial, labels, info={"exc": e.exc_type})
    return Outcome(True, "", nontrivial, labels)
