"""C03  MGM and MGM2 never worsen the global cost between cycles.
(also hosts the analysis shared with C04)"""
from hypothesis import strategies as st

from .. import gen, localsearch, oracles
from ..run import Outcome, UnderTestError, under_test

PROPERTY = "C03"
LEVEL = "exploration"
TECHNIQUE = ("property-based testing (Hypothesis): MGM/MGM2 on generated DCOPs under generated FIFO schedules and "
             "seeds on SimNet; invariant over the history of per-cycle snapshots with an independent cost oracle")
LEVEL_TEXT = ("MGM (both break modes) and MGM2 (threshold 0/.3/.5/1, all favor modes) computations run on SimNet under "
              "generated start/delivery schedules and algorithm seeds, on DCOPs with 1-6 variables, arity 1-3 "
              "constraints, optional variable costs, min and max. The value every computation holds when it enters "
              "cycle c is recorded through the documented _on_new_cycle hook (logical snapshot A_c). Oracle: the "
              "independent global cost (constraints + variable costs) of A_{c+1} is never worse than that of A_c, and "
              "no two constraint-sharing variables change between A_c and A_{c+1} unless the wire log shows both "
              "sent go?=True to each other in that cycle (one coordinated MGM2 move). A quarter of the cases are tie DCOPs (costs 0/1/2, own "
              "domain per variable), a sixth carry big-M penalties of 10^18. Sampling of inputs x schedules "
              "x seeds.")
LEVEL_NOTE = ("Trusted: SimNet FIFO model, reference cost evaluator. Snapshots are logical (per cycle count), which is "
              "what 'all computations have completed the same number of cycles' means under skewed schedules.")
RULE = ("case = DCOP + algorithm + parameters + schedule + seed; non-trivial = >=1 cycle in which some variable "
        "changed value; distinct by sha1(case)")
ASSUMPTIONS = ["costs are ints or dyadic floats (exact sums)", "stop_cycle 3..10 bounds each run"]
BUDGET = {"quick": {"workers": 8, "examples": 1000, "seconds": 45},
          "thorough": {"workers": 16, "examples": 20000, "seconds": 600}}


@st.composite
def cases(draw, algos=("mgm", "mgm2")):
    desc = draw(gen.dcops(min_vars=1, max_vars=6, min_dom=1, max_dom=3, max_constraints=7, arities=(1, 2, 2, 3),
                          var_costs=True, costs=gen.mixed_costs, initial=True))
    if draw(st.integers(0, 5)) == 0:
        gen.lift_big_m(desc)
    algo = draw(st.sampled_from(list(algos)))
    params = {"stop_cycle": draw(st.integers(3, 10))}
    if algo == "mgm":
        params["break_mode"] = draw(st.sampled_from(["lexic", "random"]))
    else:
        params["threshold"] = draw(st.sampled_from([0.0, 0.3, 0.5, 0.5, 1.0]))
        params["favor"] = draw(st.sampled_from(["unilateral", "no", "coordinated"]))
    return {"dcop": desc, "algo": algo, "params": params, "schedule": draw(gen.schedules(80)),
            "seed": draw(st.integers(0, 10000))}


@st.composite
def tie_cases(draw, algos=("mgm", "mgm2", "mgm2")):
    """DCOPs full of ties (costs 0/1/2, own domain per variable): equal gains between a pair and a third variable,
    between two offers, between neighbours."""
    algo = draw(st.sampled_from(list(algos)))
    params = {"stop_cycle": draw(st.integers(4, 12))}
    if algo == "mgm":
        params["break_mode"] = draw(st.sampled_from(["lexic", "random"]))
    else:
        params["threshold"] = draw(st.sampled_from([0.3, 0.5, 0.7]))
        params["favor"] = draw(st.sampled_from(["unilateral", "no", "coordinated"]))
    return {"dcop": draw(gen.tie_dcops()), "algo": algo, "params": params, "schedule": draw(gen.schedules(80)),
            "seed": draw(st.integers(0, 10000))}


def case_strategy(tier):
    import os
    only = os.environ.get("VF_ALGOS")  # development aid: restrict the algorithms explored
    if only:
        return cases(tuple(only.split(",")))
    return st.one_of(cases(), cases(), tie_cases())


class Analysis:
    pass


def analyse(case):
    """Run the case; -> Analysis with snapshots, costs, moves, coordinated pairs, run."""
    desc, algo = case["dcop"], case["algo"]
    an = Analysis()

    def prep(r):
        r.net.trace = []

    an.run = r = localsearch.run_algo(desc, algo, case["params"], case["schedule"], case["seed"], max_steps=60000,
                                      before_run=prep)
    an.snaps = localsearch.snapshots(desc, r)
    an.costs = [(c, oracles.total_cost(desc, a)) for c, a in an.snaps]
    an.nb = oracles.neighbours(desc)
    # coordinated pairs per cycle, from the wire: go?(True) both ways, sent while in the same cycle
    go = {}
    for seq, step, src, dst, msg, cyc in r.net.trace:
        if getattr(msg, "type", None) == "go?" and getattr(msg, "go", False):
            go.setdefault(cyc, set()).add((src, dst))
    an.coordinated = {c: {frozenset(p) for p in pairs if (p[1], p[0]) in pairs} for c, pairs in go.items()}
    an.labels = gen.dcop_labels(desc) + ["algo:" + algo, r.net.schedule_label()]
    if any(an.coordinated.values()):
        an.labels.append("coordinated-go")
    an.moves = []
    for (c0, a0), (c1, a1) in zip(an.snaps, an.snaps[1:]):
        if c1 == c0 + 1:
            an.moves.append((c0, [n for n in a0 if a0[n] != a1[n]]))
    return an


def classify(case, out):
    """Known finding C03-mgm2-offer-overcount: MGM2's _find_best_offer adds the offerer's whole local gain to
    `current_cost - cost(non-shared constraints)`, counting the current cost of the constraints shared by the
    two partners twice (4 unit tests pin that value).  It can only show in a cycle where an offer was accepted
    and both partners sent go?=True: the worsening cycle's changed variables must all belong to such a pair, or -
    when other, non-adjacent variables moved in the same cycle - the pairs' moves alone must already worsen the cost
    while the others' moves alone do not."""
    if case["algo"] != "mgm2" or out.info.get("phase") != "cost":
        return None
    pairs = [set(p) for p in out.info.get("coordinated", [])]
    changed = out.info.get("changed", [])
    if changed and any(set(changed) <= p for p in pairs):
        return "C03-mgm2-offer-overcount"
    # several movers in the cycle: the moves of the coordinated pairs, taken alone, already worsen the cost and the
    # other (pairwise non-adjacent) movers, taken alone, do not
    if pairs and out.info.get("pairs_alone_worsen") and not out.info.get("others_alone_worsen"):
        return "C03-mgm2-offer-overcount"
    return None


def run_errors(an):
    net = an.run.net
    if net.errors:
        return "handler raised: %r" % (net.errors[0],)
    if net.undeliverable:
        return "message to unknown computation: %r" % (net.undeliverable[0],)
    return None


def run_case(case):
    desc = case["dcop"]
    labels = []
    try:
        an = analyse(case)
        labels = an.labels
        mode = desc["objective"]
        nontrivial = any(ch for _, ch in an.moves)
        if nontrivial:
            labels.append("moved")
        err = run_errors(an)
        if err:
            return Outcome(False, err, nontrivial, labels, info={"phase": "run"})
        snaps = dict(an.snaps)
        costs = dict(an.costs)
        for c0, changed in an.moves:
            k0, k1 = costs[c0], costs[c0 + 1]
            if oracles.better(k0, k1, mode) and not oracles.close(k0, k1):
                # who is responsible: the movers that belong to a coordinated pair of this cycle, or the others?
                # (movers of one cycle that are not partners share no constraint - checked below - so the two
                # contributions add up)
                pairs = an.coordinated.get(c0, set())
                in_pair = [v for v in changed if any(v in p for p in pairs)]
                only_pairs = dict(snaps[c0], **{v: snaps[c0 + 1][v] for v in in_pair})
                only_others = dict(snaps[c0], **{v: snaps[c0 + 1][v] for v in changed if v not in in_pair})
                kp, ko = oracles.total_cost(desc, only_pairs), oracles.total_cost(desc, only_others)
                return Outcome(False, "%s(%s): global cost went from %r (cycle %d) to %r (cycle %d); changed %r; "
                               "%r -> %r" % (case["algo"], mode, k0, c0, k1, c0 + 1, changed, snaps[c0], snaps[c0 + 1]),
                               nontrivial, labels,
                               info={"phase": "cost", "changed": changed,
                                     "coordinated": sorted(map(sorted, pairs)),
                                     "pairs_alone_worsen": bool(oracles.better(k0, kp, mode) and not oracles.close(k0, kp)),
                                     "others_alone_worsen": bool(oracles.better(k0, ko, mode) and not oracles.close(k0, ko))})
            allowed = an.coordinated.get(c0, set())
            for i, a in enumerate(changed):
                for b in changed[i + 1:]:
                    if b in an.nb[a] and frozenset((a, b)) not in allowed:
                        return Outcome(False, "%s: neighbours %s and %s both changed value in cycle %d without a "
                                       "coordinated move (%r -> %r)" % (case["algo"], a, b, c0, snaps[c0], snaps[c0 + 1]),
                                       nontrivial, labels, info={"phase": "simultaneous", "changed": changed})
    except UnderTestError as e:
        return Outcome(False, "raised %s at %s" % (e, e.frame), True, labels, info={"exc": e.exc_type})
    return Outcome(True, "", nontrivial, labels, info={"cycles": len(an.snaps)})
