"""C24  Optimal distribution methods return cost-minimal distributions."""
import itertools
import os

from hypothesis import strategies as st

from .. import build, gen
from ..run import Outcome, UnderTestError, under_test

PROPERTY = "C24"
LEVEL = "exploration"
TECHNIQUE = ("property-based testing (Hypothesis): generated tiny distribution instances solved by oilp_cgdp / ilp_fgdp "
             "and compared with a brute-force enumeration of every mapping (differential against an obviously "
             "correct reference; the feasible set and the minimum are exhaustive per instance)")
LEVEL_TEXT = ("Generated instances: computation graphs of 1-5 computations (constraints hypergraph, factor graph, "
              "pseudo-tree, ordered graph for oilp_cgdp; factor graph for ilp_fgdp) from generated DCOPs, 1-3 agents, "
              "generated footprints, capacities (ample, tight, mixed), default and specific hosting costs (0 = "
              "pinned), a common default route and specific routes (a quarter of them direction-dependent), message loads from symmetric or "
              "asymmetric tables or from the algorithm module. Oracle: all |agents|^|computations| <= 243 mappings "
              "are enumerated; those satisfying the method's hard rules (capacity, hosted once, zero hosting cost => "
              "pinned on that agent, ilp_fgdp: every agent hosts something) form the feasible set; every one is "
              "priced with the method's own distribution_cost. If the set is empty the method must signal "
              "ImpossibleDistributionException; otherwise it must return a feasible mapping whose distribution_cost "
              "is <= the minimum + 1e-6 (relative). The enumeration is exhaustive for each instance; instances are "
              "sampled. A quarter of them are constraints hyper-graphs in which two links with different node sets "
              "share a pair of computations.")
LEVEL_NOTE = ("Trusted: the enumeration in this file; the method's own distribution_cost as the yardstick (as the "
              "property states); CBC substituted for the absent glpsol from the harness (model untouched). A solver "
              "failure of the substituted solver (PulpSolverError, recorded by the shim) makes the case inconclusive, "
              "never a violation. Direction-dependent (asymmetric) message loads are generated but only counted "
              "(label asym-load-objective-mismatch): the property quantifies over footprints, capacities, hosting "
              "costs and routes, and every shipped algorithm's load is symmetric.")
RULE = ("case = DCOP + graph model + agents + cost tables + method; non-trivial = >=2 agents, >=3 computations, a "
        "feasible set of >=2 mappings with >=2 distinct costs; distinct by sha1(case)")
ASSUMPTIONS = ["glpsol is absent: the ILP methods are solved by CBC through a harness-side substitution of GLPK_CMD",
               "one common default route"]
BUDGET = {"quick": {"workers": 8, "examples": 110, "seconds": 50},
          "thorough": {"workers": 16, "examples": 900, "seconds": 1200}}

AGENT_NAMES = ["a1", "a2", "a10"]
GRAPHS = ["constraints_hypergraph", "factor_graph", "pseudotree", "ordered_graph"]
ALGO_FOR_GRAPH = {"constraints_hypergraph": ["dsa", "mgm", "mgm2", "dba"], "factor_graph": ["maxsum", "amaxsum"],
                  "pseudotree": [], "ordered_graph": ["syncbb"]}

_solver_errors = [0]


@st.composite
def cases(draw):
    method = draw(st.sampled_from(["oilp_cgdp", "oilp_cgdp", "ilp_fgdp"]))
    graph = "factor_graph" if method == "ilp_fgdp" else draw(st.sampled_from(GRAPHS))
    if graph == "factor_graph":
        nv = draw(st.integers(1, 3))
        dcop = draw(gen.dcops(min_vars=nv, max_vars=nv, max_dom=2, max_constraints=5 - nv, arities=(1, 2, 3),
                              kinds=("matrix",), var_costs=False, objectives=("min",), costs=gen.nonneg_int_costs,
                              str_domains=False))
    else:
        dcop = draw(gen.dcops(min_vars=1, max_vars=5, max_dom=2, max_constraints=5, arities=(1, 2, 3),
                              kinds=("matrix",), var_costs=False, objectives=("min",), costs=gen.nonneg_int_costs,
                              str_domains=False))
    na = draw(st.sampled_from([1, 2, 2, 2, 3, 3, 3]))
    common_default_route = draw(st.sampled_from([1, 1, 2, 0.5, 0]))
    cap_mode = draw(st.sampled_from(["ample", "ample", "tight", "mixed"]))
    agents = []
    for i in range(na):
        a = {"name": AGENT_NAMES[i], "default_route": common_default_route, "routes": {}}
        a["capacity"] = {"ample": 1000, "tight": draw(st.integers(2, 14)),
                         "mixed": draw(st.sampled_from([3, 8, 1000]))}[cap_mode]
        # a default of 0 pins every computation on this agent: keep it rare
        a["default_hosting_cost"] = draw(st.sampled_from([1, 5, 10, 2.5, 1, 5, 10, 2.5, 7, 0]))
        a["hosting"] = draw(st.lists(st.tuples(st.integers(0, 4), st.sampled_from([0, 1, 3, 20, 7.5])), max_size=3))
        agents.append(a)
    for i in range(na):
        for j in range(i + 1, na):
            if draw(st.booleans()):
                r = draw(st.sampled_from([0, 1, 3, 0.5, 10]))
                agents[i]["routes"][agents[j]["name"]] = r
                # the API accepts direction-dependent route costs (only the YAML format cannot express them)
                agents[j]["routes"][agents[i]["name"]] = draw(st.sampled_from([0, 1, 3, 0.5, 10])) \
                    if draw(st.integers(0, 3)) == 0 else r
    return {"dcop": dcop, "graph": graph, "method": method, "agents": agents,
            "costs": draw(st.sampled_from(["sym", "sym", "asym", "algo"])),
            "footprint": draw(st.lists(st.sampled_from([0, 1, 2, 3, 5, 8, 2.5]), min_size=5, max_size=5)),
            "load": draw(st.lists(st.lists(st.sampled_from([0, 1, 2, 4, 10, 0.5]), min_size=5, max_size=5),
                                  min_size=5, max_size=5)),
            "algo_pick": draw(st.integers(0, 3))}


@st.composite
def overlap_cases(draw):
    """Constraints hyper-graphs in which two links with different node sets share a pair of computations
    (c0(x,y,z) next to c1(x,y) or c1(x,y,w)): the pair must be priced once, by the ILP and by distribution_cost
    alike.  Hosting costs are drawn around the communication costs so that the trade-off is open."""
    nv = draw(st.integers(3, 4))
    names = draw(st.lists(st.sampled_from(gen.NAME_POOL), min_size=nv, max_size=nv, unique=True))
    scopes = [names[:3], draw(st.sampled_from([names[:2], names[1:3], [names[0], names[2]]] +
                                              ([[names[0], names[1], names[3]]] if nv == 4 else [])))]
    if draw(st.booleans()):
        k = draw(st.integers(2, 3))
        scopes.append(draw(st.lists(st.sampled_from(names), min_size=k, max_size=k, unique=True)))
    dcop = {"objective": "min", "domains": {"d0": [0, 1]},
            "variables": [{"name": n, "domain": "d0", "cost": None, "initial": None} for n in names],
            "constraints": [{"name": "c%d" % i, "scope": sc, "kind": "matrix",
                             "table": gen.nested_table(draw, [2] * len(sc), gen.nonneg_int_costs)}
                            for i, sc in enumerate(scopes)]}
    na = draw(st.sampled_from([2, 2, 3]))
    route = draw(st.sampled_from([1, 1, 2, 0.5]))
    agents = []
    for i in range(na):
        agents.append({"name": AGENT_NAMES[i], "default_route": route, "routes": {},
                       "capacity": draw(st.sampled_from([1000, 1000, 8, 5])),
                       "default_hosting_cost": draw(st.sampled_from([1, 2, 4, 6, 9, 12, 15, 18, 20, 25])),
                       "hosting": draw(st.lists(st.tuples(st.integers(0, 4), st.sampled_from([1, 5, 10, 16, 30])),
                                                max_size=2))})
    return {"dcop": dcop, "graph": "constraints_hypergraph", "method": "oilp_cgdp", "agents": agents,
            "costs": "sym", "footprint": draw(st.lists(st.sampled_from([0, 1, 2, 3]), min_size=5, max_size=5)),
            "load": draw(st.lists(st.lists(st.sampled_from([1, 1, 2, 4]), min_size=5, max_size=5),
                                  min_size=5, max_size=5)),
            "algo_pick": draw(st.integers(0, 3))}


@st.composite
def pinned_fg_cases(draw):
    """ilp_fgdp with one or two computations pinned (hosting cost 0) on an agent at ANY position of the agent
    list, ample capacities and non-zero loads: the free neighbours of a pinned factor must follow the trade-off
    between that factor and their other factors (seeded change C24-m6 left the co-location variable of a pinned
    factor unconstrained for every agent after the first non-host)."""
    nv = draw(st.integers(2, 3))
    dcop = draw(gen.dcops(min_vars=nv, max_vars=nv, max_dom=2, max_constraints=5 - nv, arities=(1, 2),
                          kinds=("matrix",), var_costs=False, objectives=("min",), costs=gen.nonneg_int_costs,
                          str_domains=False))
    na = draw(st.sampled_from([2, 2, 3]))
    route = draw(st.sampled_from([1, 1, 2, 0.5]))
    agents = [{"name": AGENT_NAMES[i], "default_route": route, "routes": {}, "capacity": 1000,
               "default_hosting_cost": draw(st.sampled_from([1, 5, 10, 2.5])), "hosting": []} for i in range(na)]
    for idx in draw(st.lists(st.integers(0, 4), min_size=1, max_size=2, unique=True)):
        agents[draw(st.integers(0, na - 1))]["hosting"].append((idx, 0))
    for i in range(na):
        for j in range(i + 1, na):
            if draw(st.integers(0, 2)) == 0:
                r = draw(st.sampled_from([1, 3, 0.5, 10]))
                agents[i]["routes"][agents[j]["name"]] = r
                agents[j]["routes"][agents[i]["name"]] = r
    return {"dcop": dcop, "graph": "factor_graph", "method": "ilp_fgdp", "agents": agents, "costs": "sym",
            "footprint": draw(st.lists(st.sampled_from([0, 1, 2, 3]), min_size=5, max_size=5)),
            "load": draw(st.lists(st.lists(st.sampled_from([1, 2, 4, 10, 0.5]), min_size=5, max_size=5),
                                  min_size=5, max_size=5)),
            "algo_pick": draw(st.integers(0, 3))}


def case_strategy(tier):
    return st.one_of(cases(), cases(), cases(), overlap_cases(), pinned_fg_cases())


_patched = set()


def _shim_glpk(module):
    if module.__name__ in _patched or not hasattr(module, "GLPK_CMD"):
        return
    import pulp

    class RecordingCBC(pulp.PULP_CBC_CMD):
        def actualSolve(self, lp, **kw):
            try:
                return super().actualSolve(lp, **kw)
            except pulp.PulpSolverError:
                _solver_errors[0] += 1
                raise

    def cbc(**kw):
        return RecordingCBC(msg=False, timeLimit=60)

    module.GLPK_CMD = cbc
    _patched.add(module.__name__)


def run_case(case):
    method, graph = case["method"], case["graph"]
    labels = ["method:" + method, "graph:" + graph, "agents:%d" % len(case["agents"]), "costs:" + case["costs"]]
    nontrivial = False
    try:
        with under_test():
            import importlib
            dcop, _, _ = build.build_dcop(case["dcop"])
            graph_module = importlib.import_module("pydcop.computations_graph." + graph)
            cg = graph_module.build_computation_graph(dcop)
            comp_names = sorted(n.name for n in cg.nodes)
        if len(comp_names) > 5:
            return Outcome(True, "", False, labels, discard=True)
        n = len(comp_names)
        agent_descs = []
        for a in case["agents"]:
            hc = {}
            for idx, cost in a["hosting"]:
                hc[comp_names[idx % n]] = cost
            agent_descs.append({"name": a["name"], "default_route": a["default_route"], "routes": dict(a["routes"]),
                                "default_hosting_cost": a["default_hosting_cost"], "hosting_costs": hc,
                                "extra": {"capacity": a["capacity"]}})
        with under_test():
            from pydcop.algorithms import load_algorithm_module
            from pydcop.distribution.objects import Distribution
            dist_module = importlib.import_module("pydcop.distribution." + method)
            _shim_glpk(dist_module)
            agents = build.build_agents(agent_descs)
        fp_table = {c: case["footprint"][i] for i, c in enumerate(comp_names)}
        idx = {c: i for i, c in enumerate(comp_names)}
        algos = ALGO_FOR_GRAPH[graph]
        mode = case["costs"] if (case["costs"] != "algo" or algos) else "sym"
        if mode == "algo":
            with under_test():
                am = load_algorithm_module(algos[case["algo_pick"] % len(algos)])
                computation_memory, communication_load = am.computation_memory, am.communication_load
                footprint = {nd.name: computation_memory(nd) for nd in cg.nodes}
        else:
            footprint = fp_table

            def computation_memory(node):
                return fp_table[node.name]
            if mode == "sym":
                def communication_load(node, target):
                    i, j = sorted((idx[node.name], idx[target]))
                    return case["load"][i][j]
            else:
                def communication_load(node, target):
                    return case["load"][idx[node.name]][idx[target]]
        # ---- brute force over every mapping
        names = [a["name"] for a in agent_descs]
        cap = {a["name"]: a["extra"]["capacity"] for a in agent_descs}

        def hosting(a, c):
            return a["hosting_costs"].get(c, a["default_hosting_cost"])

        pins = {}
        pin_conflict = False
        for a in agent_descs:
            for c in comp_names:
                if hosting(a, c) == 0:
                    if c in pins and pins[c] != a["name"]:
                        pin_conflict = True
                    pins[c] = a["name"]
        feasible = []
        if not pin_conflict:
            for combo in itertools.product(names, repeat=n):
                m = dict(zip(comp_names, combo))
                if any(m[c] != a for c, a in pins.items()):
                    continue
                if any(sum(footprint[c] for c in comp_names if m[c] == a) > cap[a] + 1e-9 for a in names):
                    continue
                if method == "ilp_fgdp" and set(combo) != set(names):
                    continue
                feasible.append(m)
        costs = []
        for m in feasible:
            mapping = {a: [c for c in comp_names if m[c] == a] for a in names}
            with under_test():
                cst = dist_module.distribution_cost(Distribution(mapping), cg, agents, computation_memory,
                                                    communication_load)[0]
            costs.append(cst)
        best = min(costs) if costs else None
        if pins:
            labels.append("pinned")
        labels.append("feasible:%s" % ("0" if not feasible else "1" if len(feasible) == 1 else "2+"))
        nontrivial = len(names) >= 2 and n >= 3 and len(set(costs)) >= 2
        desc = "%s on %s %r, agents %r, footprints %r, costs %s" % (
            method, graph, comp_names,
            [(a["name"], a["extra"]["capacity"], a["default_hosting_cost"], a["hosting_costs"], a["routes"])
             for a in agent_descs], footprint, mode)
        before = _solver_errors[0]
        try:
            with under_test():
                dist = dist_module.distribute(cg, agents, hints=None, computation_memory=computation_memory,
                                              communication_load=communication_load)
                got = {a: list(cs) for a, cs in dist.mapping().items()}
                got_cost = dist_module.distribution_cost(dist, cg, agents, computation_memory, communication_load)[0]
        except UnderTestError as e:
            if _solver_errors[0] != before or e.exc_type == "PulpSolverError":
                return Outcome(True, "", False, labels + ["inconclusive:solver-error"], discard=True)
            if e.exc_type == "ImpossibleDistributionException":
                if feasible:
                    m = feasible[costs.index(best)]
                    return Outcome(False, "%s declared the distribution impossible although %d mappings satisfy its "
                                          "hard rules, e.g. %r (cost %r) [%s]" % (method, len(feasible), m, best, desc),
                                   nontrivial, labels, info={"kind": "false-impossible", "method": method})
                return Outcome(True, "", nontrivial, labels + ["outcome:impossible"])
            if e.exc_type == "TimeoutError":
                return Outcome(True, "", False, labels + ["inconclusive:timeout"], discard=True)
            return Outcome(False, "%s.distribute raised %s at %s [%s]" % (method, e, e.frame, desc), nontrivial,
                           labels, info={"kind": "raised", "exc": e.exc_type, "frame": e.frame, "method": method})
        where = {c: a for a, cs in got.items() for c in cs}
        flat = [c for cs in got.values() for c in cs]
        if sorted(flat) != comp_names or not set(got) <= set(names):
            return Outcome(False, "%s returned a mapping that is not an exact cover: %r [%s]" % (method, got, desc),
                           nontrivial, labels, info={"kind": "cover", "method": method})
        if where not in feasible:
            return Outcome(False, "%s returned %r which breaks its own hard rules (capacity / pinning / every agent "
                                  "used); feasible set has %d mappings [%s]" % (method, got, len(feasible), desc),
                           nontrivial, labels, info={"kind": "infeasible", "method": method})
        if got_cost > best + 1e-6 * max(1.0, abs(best)):
            m = feasible[costs.index(best)]
            if mode == "asym":
                # direction-dependent message loads are not in the property's domain (no shipped algorithm has
                # them; the ILP reads a link as variable->factor, distribution_cost in the link's node order):
                # counted, not asserted
                return Outcome(True, "", False, labels + ["asym-load-objective-mismatch"])
            return Outcome(False, "%s returned %r with distribution_cost %r but %r costs %r [%s]" % (
                method, got, got_cost, m, best, desc), nontrivial, labels,
                info={"kind": "suboptimal", "method": method, "pinned": bool(pins), "mode": mode})
        return Outcome(True, "", nontrivial, labels + ["outcome:optimal"])
    except UnderTestError as e:
        return Outcome(False, "set-up raised %s at %s" % (e, e.frame), nontrivial, labels,
                       info={"kind": "setup", "exc": e.exc_type, "frame": e.frame, "method": case["method"]})
    finally:
        for f in os.listdir("."):
            if f.endswith((".lp", ".sol", ".mps")):
                try:
                    os.remove(f)
                except OSError:
                    pass


def classify(case, out):
    return None


def postcheck(cov, tier):
    need = ["method:oilp_cgdp", "method:ilp_fgdp", "outcome:optimal", "outcome:impossible", "pinned", "feasible:2+",
            "costs:asym", "costs:algo"]
    missing = [l for l in need if not cov["labels"].get(l)]
    return ("classes never generated: %s" % missing) if missing else None
