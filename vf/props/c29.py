"""C29  Batch parameter expansion is an exact cartesian product."""
import itertools

from hypothesis import strategies as st

from ..run import Outcome, UnderTestError, under_test

PROPERTY = "C29"
LEVEL = "exploration"
TECHNIQUE = ("property-based testing (Hypothesis): generated batch parameter definitions (nested one level) in several "
             "generated insertion/value permutations; oracle = reference cartesian product as a set + pairwise "
             "distinctness + permutation invariance (metamorphic) + token multiset of the rendered options")
LEVEL_TEXT = ("Generated batch parameter definitions: 0-4 parameters, each a scalar (str/int/float/bool), a list of "
              "0-4 values distinct after str(), or a one-level nested dict of 1-3 sub-parameters (same value shapes); "
              "each definition is expanded in its generated order and in 1-3 generated permutations of parameter "
              "order, sub-parameter order and value order. Oracle: parameters_configuration(regularize_parameters(p)) "
              "is a list with pairwise distinct elements whose set equals the reference cartesian product computed "
              "from the case (one value per parameter, nested dicts expanded the same way), the list is identical "
              "for every permutation (deterministic order), estimate_batch agrees with the reference count; for each "
              "combination build_option_for_parameters, and the option part of build_final_command, render exactly "
              "the multiset {--name value | --name sub:value} of the chosen values (an empty value renders the bare "
              "flag) and nothing else. A third of the cases expand a second "
              "definition with the same names and other values in the same process. Sampling, not proof.")
LEVEL_NOTE = ("Trusted: the reference product (itertools over the case description, independent of the code's sorting) "
              "and the whitespace tokeniser (generated names/values contain no whitespace, braces or colons). The "
              "empty definition is in the domain (estimate_batch counts it as one job): its expansion must be the "
              "single empty combination. Nested dicts are non-empty.")
RULE = ("case = parameter definition + permutations; non-trivial = >=2 parameters with >=2 values each or a nested "
        "parameter with a multi-valued sub-parameter; distinct by sha1(case)")
ASSUMPTIONS = ["values are distinct after str() within one parameter (regularisation stringifies them)"]
BUDGET = {"quick": {"workers": 4, "examples": 1200, "seconds": 30},
          "thorough": {"workers": 16, "examples": 12000, "seconds": 450}}

PNAMES = ["algo", "algo_params", "dist", "graph", "a", "b", "b1", "b10", "collect_on", "period", "timeout", "A"]
SUBNAMES = ["variant", "probability", "stop_cycle", "p", "q", "damping"]
SCALARS = st.one_of(st.sampled_from(["A", "B", "dsa", "mgm", "adhoc", "", "x_1", "v-2", "0.5", "10", "9", "1", "a", "Z"]),
                    st.integers(-2, 12), st.sampled_from([0.5, 0.25, 1.0, 10.0, 1e-3]), st.booleans())


@st.composite
def value_spec(draw, allow_nested):
    k = draw(st.integers(0, 5 if allow_nested else 3))
    if k == 0:
        return draw(SCALARS)
    if k <= 3:
        return draw(st.lists(SCALARS, min_size=0 if draw(st.integers(0, 7)) == 0 else 1, max_size=4,
                             unique_by=lambda x: str(x)))
    names = draw(st.lists(st.sampled_from(SUBNAMES), min_size=1, max_size=3, unique=True))
    return {n: draw(value_spec(False)) for n in names}


@st.composite
def cases(draw):
    names = draw(st.lists(st.sampled_from(PNAMES), min_size=0, max_size=4, unique=True))
    params = [[n, draw(value_spec(True))] for n in names]
    # nested dicts as ordered pair lists so that insertion order is part of the case
    params = [[n, [[k, v[k]] for k in v] if isinstance(v, dict) else v, isinstance(v, dict)] for n, v in params]
    nperm = draw(st.integers(1, 3))
    second = None
    if params and draw(st.integers(0, 2)) == 0:
        # another batch of the same file: same parameter and sub-parameter names in the same order, other values
        # for some of them (a batch file typically holds several such batches, expanded one after the other)
        second = []
        for n, v, nested in params:
            if nested:
                second.append([n, [[k, draw(value_spec(False)) if draw(st.booleans()) else vv] for k, vv in v], True])
            else:
                second.append([n, draw(value_spec(False)) if draw(st.integers(0, 3)) == 0 else v, False])
    return {"second": second, "params": params, "perm_seeds": [draw(st.integers(0, 10 ** 6)) for _ in range(nperm)],
            "global": draw(st.dictionaries(st.sampled_from(["timeout", "output", "log"]),
                                           st.sampled_from(["3", "out.yaml", ""]), max_size=2)),
            "files": draw(st.lists(st.sampled_from(["f1.yaml", "dir/f2.yml"]), max_size=2))}


def case_strategy(tier):
    return cases()


def _perm(seq, seed):
    """Deterministic permutation of seq from an integer (factorial number system)."""
    seq = list(seq)
    out = []
    while seq:
        seed, i = divmod(seed, len(seq))
        out.append(seq.pop(i))
    return out, seed


def build(params, seed=None):
    """Case description -> dict as a YAML loader would produce it, optionally permuted."""
    items = list(params)
    if seed is not None:
        items, seed = _perm(items, seed)
    d = {}
    for n, v, nested in items:
        if nested:
            sub = list(v)
            if seed is not None:
                sub, seed = _perm(sub, seed)
            dd = {}
            for k, vv in sub:
                if isinstance(vv, list) and seed is not None:
                    vv, seed = _perm(vv, seed)
                dd[k] = list(vv) if isinstance(vv, list) else vv
            d[n] = dd
        else:
            if isinstance(v, list) and seed is not None:
                v, seed = _perm(v, seed)
            d[n] = list(v) if isinstance(v, list) else v
    return d


def _vals(v):
    return [str(x) for x in v] if isinstance(v, list) else [str(v)]


def reference(params):
    """Set of combinations, each as a frozenset of (name, value) / (name, frozenset((sub, value)...))."""
    axes = []
    for n, v, nested in params:
        if nested:
            subaxes = [[(k, s) for s in _vals(vv)] for k, vv in v]
            axes.append([(n, frozenset(c)) for c in itertools.product(*subaxes)])
        else:
            axes.append([(n, s) for s in _vals(v)])
    return set(frozenset(c) for c in itertools.product(*axes))


def freeze(combo):
    return frozenset((k, frozenset(v.items()) if isinstance(v, dict) else v) for k, v in combo.items())


def tokens_expected(combo):
    out = []
    for k, v in combo.items():
        if isinstance(v, dict):
            for sk, sv in v.items():
                out.append(("--" + k, "%s:%s" % (sk, sv)))
        elif v == "":
            out.append(("--" + k, None))
        else:
            out.append(("--" + k, v))
    return sorted(out, key=repr)


def tokenise(s):
    toks = s.split()
    out, i = [], 0
    while i < len(toks):
        if not toks[i].startswith("--"):
            return None
        if i + 1 < len(toks) and not toks[i + 1].startswith("--"):
            out.append((toks[i], toks[i + 1]))
            i += 2
        else:
            out.append((toks[i], None))
            i += 1
    return sorted(out, key=repr)


def run_case(case):
    out = _run_one(case, case["params"])
    if out.ok and case.get("second"):
        out2 = _run_one(case, case["second"])
        out2.labels = out.labels + ["second-definition"]
        out2.nontrivial = out.nontrivial or out2.nontrivial
        if not out2.ok:
            out2.why = "[second definition expanded in the same process, after %r] %s" % (build(case["params"]), out2.why)
        return out2
    return out


def _run_one(case, params):
    labels = ["params:%d" % len(params)]
    multi = sum(1 for n, v, nested in params if not nested and isinstance(v, list) and len(v) >= 2)
    nested_multi = any(nested and any(isinstance(vv, list) and len(vv) >= 2 for _, vv in v) for n, v, nested in params)
    if any(nested for _, _, nested in params):
        labels.append("nested")
    if any((not nested and isinstance(v, list) and not v) for n, v, nested in params):
        labels.append("empty-list")
    if any(not nested and not isinstance(v, list) for n, v, nested in params):
        labels.append("scalar")
    nontrivial = multi >= 2 or nested_multi
    ref = reference(params)
    labels.append("combos:%s" % ("0" if not ref else "1" if len(ref) == 1 else "2-8" if len(ref) <= 8 else "9+"))
    try:
        with under_test():
            from pydcop.commands import batch
        first = None
        for seed in [None] + list(case["perm_seeds"]):
            d = build(params, seed)
            with under_test():
                reg = batch.regularize_parameters(d)
                combos = batch.parameters_configuration(reg)
            desc = "parameters_configuration(regularize_parameters(%r))" % (d,)
            if not isinstance(combos, list):
                return Outcome(False, "%s is not a list: %r" % (desc, combos), nontrivial, labels)
            frozen = [freeze(c) for c in combos]
            if len(set(frozen)) != len(frozen):
                dup = [c for c in combos if frozen.count(freeze(c)) > 1][0]
                return Outcome(False, "%s lists %r more than once" % (desc, dup), nontrivial, labels,
                               info={"kind": "duplicate"})
            if set(frozen) != ref:
                miss = sorted(map(lambda c: sorted(map(str, c)), ref - set(frozen)))[:2]
                extra = sorted(map(lambda c: sorted(map(str, c)), set(frozen) - ref))[:2]
                return Outcome(False, "%s != cartesian product: %d combinations for %d expected; missing %r extra %r"
                               % (desc, len(frozen), len(ref), miss, extra), nontrivial, labels,
                               info={"kind": "product"})
            if first is None:
                first = combos
            elif combos != first:
                return Outcome(False, "expansion order depends on the input order: %r gives %r but the generated "
                                      "order gave %r" % (d, combos[:4], first[:4]), nontrivial, labels,
                               info={"kind": "order"})
            with under_test():
                est = batch.estimate_batch({"command_options": d})
            if est != max(len(ref), 1) and not (len(ref) == 0):
                return Outcome(False, "estimate_batch counts %r jobs for %r, the product has %d" % (est, d, len(ref)),
                               nontrivial, labels, info={"kind": "estimate"})
        for combo in first:
            with under_test():
                s = batch.build_option_for_parameters(combo)
            got = tokenise(s)
            exp = tokens_expected(combo)
            if got != exp:
                return Outcome(False, "build_option_for_parameters(%r) = %r, expected options %r" % (combo, s, exp),
                               nontrivial, labels, info={"kind": "options"})
            with under_test():
                full, cdir = batch.build_final_command("solve", {"set": "s"}, dict(case["global"]), combo,
                                                       current_dir="", files=list(case["files"]))
            gexp = [("--" + k, v if v != "" else None) for k, v in case["global"].items()]
            toks = full.split()
            nfiles = len(case["files"])
            tail = toks[len(toks) - nfiles:] if nfiles else []
            body = toks[:len(toks) - nfiles] if nfiles else toks
            ok = bool(body) and body[0] == "pydcop" and "solve" in body and tail == list(case["files"])
            if ok:
                i = body.index("solve")
                ok = tokenise(" ".join(body[1:i])) == sorted(gexp, key=repr) and tokenise(" ".join(body[i + 1:])) == exp
            if not ok:
                return Outcome(False, "build_final_command(global=%r, combination=%r, files=%r) = %r does not render "
                                      "each chosen value exactly once" % (case["global"], combo, case["files"], full),
                               nontrivial, labels, info={"kind": "final-command"})
    except UnderTestError as e:
        return Outcome(False, "raised %s at %s (definition %r)" % (e, e.frame, build(params)), nontrivial, labels,
                       info={"exc": e.exc_type, "kind": "raised"})
    return Outcome(True, "", nontrivial, labels)


def postcheck(cov, tier):
    need = ["nested", "scalar", "combos:9+", "combos:1", "params:0", "params:4"]
    missing = [l for l in need if not cov["labels"].get(l)]
    return ("classes never generated: %s" % missing) if missing else None
