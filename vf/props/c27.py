"""C27  After an agent removal every computation runs on exactly one live agent."""
import itertools
import sys
import threading
import time

from hypothesis import strategies as st

from ..run import Outcome, UnderTestError, under_test

PROPERTY = "C27"
LEVEL = "exploration"
TECHNIQUE = ("property-based testing (Hypothesis) with fault injection: generated DCOPs, replication levels and removal "
             "events (every subset of <= k live agents can be drawn) run through the real orchestrator, resilient "
             "thread-mode agents, replication and repair pipeline under generated scheduling perturbation; oracle = "
             "history invariant evaluated after every completed repair (directory view, agents' actual hosted "
             "computations, replica sets recorded before the event, status written by the orchestrator)")
LEVEL_TEXT = ("Generated graph-colouring-like DCOPs with 4-6 variables on a connected constraint graph, one variable "
              "per agent plus 0-1 spare agent, ample capacity, DSA or MGM with stop_cycle=0 (they never finish), "
              "k in {1,2}, replication dist_ucs_hostingcosts; scenario = 1-2 events, each removing a generated subset "
              "of 1..k live agents, with delays that let replication and repair finish. The run is the one `pydcop "
              "run` makes: run_local_thread_dcop(replication=...), deploy_computations, start_replication(k), "
              "wait_ready, run(scenario). Observation: AgentsMgt._agents_removal and _dump_repair_metrics are wrapped "
              "from the harness (the replica sets and hosts known to the directory are recorded before each event; "
              "0.5 s after each repair completes the directory view and every live agent object's computations() "
              "are read). Oracle per event whose orphaned computations all had a surviving replica holder: every "
              "original computation is registered in the directory on exactly one agent, which is a survivor; "
              "exactly one live agent object hosts it and it is that agent; a re-hosted computation's new host held "
              "its replica before the event; the repair status written by the orchestrator is OK only if all of "
              "that holds. Thread interleavings are perturbed, not enumerated. "
              "One shard runs a second target instead: the real Directory and Discovery objects on SimNet, driven through "
              "the publications of re-hostings (former host un-publishes under its own name, new host publishes, one "
              "re-hosting per computation and event, events separated by a drain) under generated delivery orders; oracle: "
              "the directory and every surviving subscriber end up naming the new host. A third shard drives the real "
              "AgentsMgt object through sequences of 1-4 removal events (set-up, ready, a generated placement of the "
              "orphans - or none -, done): whenever it writes the status OK every orphan of the event is hosted.")
LEVEL_NOTE = ("Trusted: the snapshot logic in this file (reads of other threads' dictionaries after a settle delay). "
              "A run costs 3-8 s, so the number of fault sequences explored is small; C25 and C26 explore replication "
              "and the repair constraints densely and deterministically.")
RULE = ("case = DCOP + k + fault sequence + perturbation; non-trivial = at least one event that orphaned a computation "
        "with >=2 candidate hosts and whose repair completed; for the directory target (label dirsim): a delivery "
        "that overtook an older enabled one; for the bookkeeping target (label mgtsim): a second or later event with "
        "orphans and candidates; distinct by sha1(case). The label histogram gives the split between the targets")
ASSUMPTIONS = ["thread mode", "events whose orphaned computations had lost every replica holder before the event "
               "(insufficient re-replication after an earlier event) are counted, not asserted"]
BUDGET = {"quick": {"workers": 8, "examples": 5, "seconds": 50, "shrink_seconds": 30},
          "thorough": {"workers": 16, "examples": 60, "seconds": 1500, "shrink_seconds": 200}}

COLORS = ["R", "G", "B"]


@st.composite
def cases(draw):
    n = draw(st.integers(4, 6))
    order = draw(st.permutations(list(range(n))))
    edges = set()
    for i in range(1, n):
        j = draw(st.integers(0, i - 1))
        edges.add(tuple(sorted((order[i], order[j]))))
    for _ in range(draw(st.integers(0, 3))):
        a, b = draw(st.integers(0, n - 1)), draw(st.integers(0, n - 1))
        if a != b:
            edges.add(tuple(sorted((a, b))))
    k = draw(st.integers(1, 2))
    spare = draw(st.integers(0, 1))
    na = n + spare
    events = []
    alive = list(range(na))
    for _ in range(draw(st.integers(1, 2))):
        if len(alive) - 1 < k + 1:
            break
        size = draw(st.integers(1, k))
        gone = draw(st.lists(st.sampled_from(alive), min_size=size, max_size=size, unique=True))
        if len(alive) - len(gone) < k + 1:
            break
        events.append(sorted(gone))
        alive = [a for a in alive if a not in gone]
    if not events:
        events = [[draw(st.sampled_from(list(range(n))))]]
    return {"n": n, "edges": sorted(edges), "colors": draw(st.integers(2, 3)), "k": k, "spare": spare,
            "algo": draw(st.sampled_from(["dsa", "mgm"])), "events": events,
            # hosting costs, small or (one case in four, for every agent) above 1000: the repair DCOP must still
            # prefer hosting every orphaned computation once over saving hosting costs
            "hosting": draw(st.lists(st.sampled_from([0, 1, 2, 5]) if draw(st.integers(0, 3)) else
                                     st.sampled_from([3000, 2500, 4000]), min_size=na, max_size=na)),
            "route": draw(st.sampled_from([1, 1, 2, 0.5])),
            "switch_us": draw(st.sampled_from([5, 50, 500, 5000])),
            "naps": draw(st.lists(st.sampled_from([0, 0, 0, 0, 1, 2, 5]), min_size=8, max_size=8)),
            # pause between deployment and the replication request: 0 is what `pydcop run` does (agents may not know
            # yet where their neighbours are hosted, see the listed findings); 300 ms lets the run reach the repair
            "settle_ms": draw(st.sampled_from([0, 300, 300])),
            # a removed agent may be slow to shut down: its un-publications then reach the directory after the repair
            "slow_stop_ms": draw(st.sampled_from([0, 0, 400])),
            # latency on the link towards one agent: the management messages other agents send it (repair set-up,
            # run, pause ...) arrive this many ms late, in order
            "slow_link": [draw(st.integers(0, na - 1)), draw(st.sampled_from([300, 900]))]
            if draw(st.integers(0, 3)) == 0 else None,
            "rng_seed": draw(st.integers(0, 10 ** 6))}


SHARDED = True
DIR_SHARD = 1   # this shard explores the directory side of re-hostings on SimNet (vf/props/c27_dir.py)
MGT_SHARD = 2   # ... and this one the orchestrator's repair bookkeeping over event sequences (vf/props/c27_mgt.py)


def case_strategy(tier, shard=0):
    if shard == DIR_SHARD:
        from . import c27_dir
        return c27_dir.cases()
    if shard == MGT_SHARD:
        from . import c27_mgt
        return c27_mgt.cases()
    return cases()


def shard_budget(tier, shard):
    """SimNet / direct-drive cases are ~1000 times cheaper than thread-mode runs."""
    if shard == DIR_SHARD:
        return {"examples": 1500 if tier == "quick" else 20000}
    if shard == MGT_SHARD:
        return {"examples": 1000 if tier == "quick" else 15000}
    return {}


def run_case(case):
    if case.get("kind") == "dirsim":
        from . import c27_dir
        return c27_dir.run_case(case)
    if case.get("kind") == "mgtsim":
        from . import c27_mgt
        return c27_mgt.run_case(case)
    import random
    from . import c22
    n, k = case["n"], case["k"]
    na = n + case["spare"]
    vnames = ["v%d" % i for i in range(n)]
    anames = ["a%d" % i for i in range(na)]
    labels = ["k:%d" % k, "algo:" + case["algo"], "events:%d" % len(case["events"])]
    nontrivial = False
    orchestrator = None
    old_switch = sys.getswitchinterval()
    before_threads = set(threading.enumerate())
    agents_obj = {}
    try:
        with under_test():
            import numpy
            from pydcop.algorithms import AlgorithmDef
            from pydcop.computations_graph import constraints_hypergraph as chg
            from pydcop.dcop.dcop import DCOP
            from pydcop.dcop.objects import AgentDef, Domain, Variable
            from pydcop.dcop.relations import constraint_from_str
            from pydcop.dcop.scenario import DcopEvent, EventAction, Scenario
            from pydcop.distribution.objects import Distribution
            from pydcop.infrastructure import orchestratedagents as oa_mod
            from pydcop.infrastructure import orchestrator as orch_mod
            from pydcop.infrastructure.run import run_local_thread_dcop
            random.seed(case["rng_seed"])
            numpy.random.seed(case["rng_seed"] % (2 ** 32))
            dom = Domain("colors", "color", COLORS[:case["colors"]])
            variables = [Variable(v, dom) for v in vnames]
            dcop = DCOP("resilient", "min")
            for i, (a, b) in enumerate(case["edges"]):
                dcop.add_constraint(constraint_from_str("c%d" % i, "10 if v%d == v%d else 0" % (a, b), variables))
            for v in variables:
                if v.name not in dcop.variables:
                    dcop.add_variable(v)
            dcop.add_agents([AgentDef(a, capacity=10000, default_hosting_cost=case["hosting"][i],
                                      default_route=case["route"]) for i, a in enumerate(anames)])
            cg = chg.build_computation_graph(dcop)
            distribution = Distribution({anames[i]: [vnames[i]] for i in range(n)})
            algo = AlgorithmDef.build_with_default_param(case["algo"], {"stop_cycle": 0}, mode="min")
            c22._install_perturbation()
        events_log = []     # one dict per removal event
        snapshots = []
        done = threading.Event()
        fatal = []
        orig_init = oa_mod.OrchestratedAgent.__init__
        orig_removal = orch_mod.AgentsMgt._agents_removal
        orig_dump = orch_mod.AgentsMgt._dump_repair_metrics
        removed = set()

        agent_fatal = []    # (agent, exception type, message, innermost repository frame) of agent threads that died

        def init(self, agt_def, *a, **kw):
            orig_init(self, agt_def, *a, **kw)
            agents_obj[agt_def.name] = self

            def on_fatal(e, name=agt_def.name):
                import traceback
                frames = []
                for fs in traceback.extract_tb(e.__traceback__):
                    fn = fs.filename.replace("\\", "/")
                    if "/pydcop/" in fn and not fn.endswith("infrastructure/discovery.py"):
                        frames.append("%s:%s" % (fn.split("/pydcop/", 1)[1], fs.name))
                # innermost frames outside the discovery lookups: where the exception matters
                agent_fatal.append((name, type(e).__name__, str(e)[:200], " < ".join(reversed(frames[-3:])) or "?"))
            self.on_fatal_error = on_fatal       # the hook Agent._run calls when its thread exits on an exception

        def removal(self, leaving):
            rec = {"leaving": list(leaving), "hosts": {}, "replicas": {}, "t": time.time()}
            for c in vnames:
                try:
                    rec["hosts"][c] = self.discovery.computation_agent(c)
                    rec["replicas"][c] = sorted(self.discovery.replica_agents(c))
                except Exception as e:  # unknown computation in the directory's view
                    rec["hosts"].setdefault(c, None)
                    rec["replicas"][c] = []
            events_log.append(rec)
            removed.update(leaving)
            return orig_removal(self, leaving)

        def dump(self, status, duration):
            r = orig_dump(self, status, duration)
            idx = len(events_log) - 1
            mgt = self

            def snap():
                # the state is read 0.5 s after the completion report and, as long as some computation is not seen
                # exactly once on both sides, re-read every 0.5 s for up to 3 s: publications still travelling to the
                # directory on a loaded machine must not be mistaken for a lost computation
                for attempt in range(6):
                    time.sleep(0.5)
                    s = {"event": idx, "status": status, "directory": {}, "actual": {}, "attempts": attempt + 1}
                    try:
                        for a in mgt.discovery.agents():
                            s["directory"][a] = list(mgt.discovery.agent_computations(a))
                        for a, obj in list(agents_obj.items()):
                            if a not in removed and obj.is_running:
                                s["actual"][a] = sorted(c.name for c in obj.computations()
                                                        if not c.name.startswith(("_", "B")))
                    except Exception as e:
                        s["error"] = repr(e)[:200]
                    flat_d = [c for cs in s["directory"].values() for c in cs]
                    flat_a = [c for cs in s["actual"].values() for c in cs]
                    if all(flat_d.count(c) == 1 and flat_a.count(c) == 1 for c in vnames):
                        break
                snapshots.append(s)
                if idx == len(case["events"]) - 1:
                    done.set()
            threading.Thread(target=snap, daemon=True).start()
            return r

        def stopper():
            # ends the run once the last repair has been observed (or after a generous bound)
            done.wait(25 + 6 * len(case["events"]))
            time.sleep(0.2)
            try:
                holder["o"].stop_agents(5)
            except Exception:
                pass

        # trace of what happens to the original computations in the orchestrator's (= the directory's) discovery
        from pydcop.infrastructure import discovery as disc_mod
        dir_trace = []
        orig_dreg = disc_mod.Discovery.register_computation
        orig_dunreg = disc_mod.Discovery.unregister_computation

        def _callers():
            import traceback
            return "<".join(f.name for f in reversed(traceback.extract_stack(limit=7)[:-2]))

        def dreg(self, computation, agent=None, *a, **kw):
            if self.own_agent == "orchestrator" and computation in vnames and len(dir_trace) < 400:
                dir_trace.append(("reg", computation, agent, round(time.time() % 1000, 3), _callers()))
            return orig_dreg(self, computation, agent, *a, **kw)

        def dunreg(self, computation, agent=None, *a, **kw):
            if self.own_agent == "orchestrator" and computation in vnames and len(dir_trace) < 400:
                dir_trace.append(("unreg", computation, agent, round(time.time() % 1000, 3), _callers()))
            return orig_dunreg(self, computation, agent, *a, **kw)

        disc_mod.Discovery.register_computation = dreg
        disc_mod.Discovery.unregister_computation = dunreg
        oa_mod.OrchestratedAgent.__init__ = init
        orig_on_stop = oa_mod.OrchestratedAgent._on_stop

        def slow_on_stop(self):
            if case.get("slow_stop_ms") and self.name in removed:
                time.sleep(case["slow_stop_ms"] / 1000.0)
            return orig_on_stop(self)
        oa_mod.OrchestratedAgent._on_stop = slow_on_stop
        orch_mod.AgentsMgt._agents_removal = removal
        orch_mod.AgentsMgt._dump_repair_metrics = dump
        out_buf = None
        try:
            import contextlib
            import io
            out_buf = io.StringIO()
            sys.setswitchinterval(case["switch_us"] / 1e6)
            c22._patch_state["naps"] = list(case["naps"])
            if case.get("slow_link"):
                c22._patch_state["slow"] = c22._SlowLink(anames[case["slow_link"][0] % na], case["slow_link"][1])
                labels.append("slow-link")
            evts = [DcopEvent("d_init", delay=1.0)]
            for i, gone in enumerate(case["events"]):
                evts.append(DcopEvent("e%d" % i, actions=[EventAction("remove_agent", agent=anames[g]) for g in gone]))
                evts.append(DcopEvent("d%d" % i, delay=2.5))
            phase = ["build"]
            drive_err = []
            holder = {}

            def drive():
                # the sequence `pydcop run` performs; on its own thread so that a wait that never returns (observed:
                # management messages parked for ever, see C18) cannot block the check
                try:
                    with under_test():
                        o = run_local_thread_dcop(algo, cg, distribution, dcop, 10000,
                                                  replication="dist_ucs_hostingcosts")
                        holder["o"] = o
                        o.set_error_handler(lambda e: fatal.append(repr(e)[:300]))
                        phase[0] = "deploy"
                        o.deploy_computations()
                        phase[0] = "replication"
                        if case.get("settle_ms"):
                            time.sleep(case["settle_ms"] / 1000.0)
                        o.start_replication(k)
                        o.wait_ready()
                        phase[0] = "run"
                        threading.Thread(target=stopper, daemon=True).start()
                        o.run(Scenario(evts), timeout=60 + 6 * len(case["events"]))
                        phase[0] = "returned"
                except UnderTestError as e:
                    drive_err.append(e)

            with contextlib.redirect_stdout(out_buf):
                th = threading.Thread(target=drive, daemon=True)
                th.start()
                th.join(45 + 8 * len(case["events"]))
            orchestrator = holder.get("o")
            if drive_err:
                raise drive_err[0]
            if th.is_alive():
                if agent_fatal:
                    a, et, msg, frame = agent_fatal[0]
                    return Outcome(False, "the thread of agent %s died with %s: %s at %s while the run was in its %s "
                                          "phase; the run never completed [edges %r, k=%d]" % (
                                              a, et, msg, frame, phase[0], case["edges"], k), nontrivial, labels,
                                   info={"kind": "agent-died", "phase": phase[0], "exc": et, "frame": frame})
                return Outcome(True, "", False, labels + ["inconclusive:stuck-in-" + phase[0]],
                               info={"inconclusive": True})
        finally:
            c22._patch_state["naps"] = None
            if c22._patch_state.get("slow") is not None:
                c22._patch_state["slow"].close()
                c22._patch_state["slow"] = None
            sys.setswitchinterval(old_switch)
            disc_mod.Discovery.register_computation = orig_dreg
            disc_mod.Discovery.unregister_computation = orig_dunreg
            oa_mod.OrchestratedAgent.__init__ = orig_init
            oa_mod.OrchestratedAgent._on_stop = orig_on_stop
            orch_mod.AgentsMgt._agents_removal = orig_removal
            orch_mod.AgentsMgt._dump_repair_metrics = orig_dump
        ctx = "edges %r, k=%d, agents %d, events %r" % (case["edges"], k, na, [[anames[g] for g in ev]
                                                                               for ev in case["events"]])
        if fatal:
            return Outcome(False, "the orchestrator thread died: %s [%s]" % (fatal[0], ctx), nontrivial, labels,
                           info={"kind": "fatal"})
        if len(events_log) < len(case["events"]):
            return Outcome(True, "", False, labels + ["inconclusive:event-not-injected"], info={"inconclusive": True})
        gone_so_far = set()
        for ei, rec in enumerate(events_log):
            leaving = set(rec["leaving"])
            gone_so_far |= leaving
            orphaned = [c for c in vnames if rec["hosts"].get(c) in leaving]
            snaps = [s for s in snapshots if s["event"] == ei]
            if not snaps:
                # the property speaks about the state "once the repair for that event completes": a repair that was
                # never reported complete within the run is counted (liveness is not part of C27), not asserted
                if agent_fatal:
                    a, et, msg, frame = agent_fatal[0]
                    return Outcome(False, "event %d (%r leave, orphaned %r): the thread of agent %s died with %s: %s at "
                                          "%s and the repair was never reported complete [%s]" % (
                                              ei, sorted(leaving), orphaned, a, et, msg, frame, ctx), nontrivial, labels,
                                   info={"kind": "agent-died", "phase": "repair", "exc": et, "frame": frame})
                labels.append("inconclusive:repair-never-reported-complete")
                return Outcome(True, "", False, labels, info={"inconclusive": True})
            s = snaps[-1]
            if "error" in s:
                return Outcome(True, "", False, labels + ["inconclusive:snapshot-error"], info={"inconclusive": True})
            lost_before = [c for c in orphaned if not (set(rec["replicas"][c]) - gone_so_far)]
            if lost_before:
                labels.append("precondition:replicas-lost-before-event")
                continue
            if any(len(set(rec["replicas"][c]) - gone_so_far) >= 2 for c in orphaned):
                nontrivial = True
            problems = []
            for c in vnames:
                dir_hosts = sorted(a for a, cs in s["directory"].items() if c in cs)
                act_hosts = sorted(a for a, cs in s["actual"].items() if c in cs)
                if len(dir_hosts) != 1:
                    problems.append("%s is registered in the directory on %r" % (c, dir_hosts))
                elif dir_hosts[0] in gone_so_far:
                    problems.append("%s is registered in the directory on departed agent %s" % (c, dir_hosts[0]))
                if len(act_hosts) != 1:
                    problems.append("%s is actually hosted by %r" % (c, act_hosts))
                elif dir_hosts and act_hosts[0] != dir_hosts[0]:
                    problems.append("%s is hosted by %s but the directory says %r" % (c, act_hosts[0], dir_hosts))
                if c in orphaned and len(act_hosts) == 1 and act_hosts[0] not in rec["replicas"][c]:
                    problems.append("%s was re-hosted on %s which held no replica of it (replicas were on %r)" % (
                        c, act_hosts[0], rec["replicas"][c]))
            labels.append("repair:" + str(s["status"]))
            if problems:
                kind = "hosting-broken-status-%s" % s["status"]
                if agent_fatal:
                    problems.insert(0, "agent threads died: %r" % (agent_fatal[:3],))
                    a, et, msg, frame = agent_fatal[0]
                    return Outcome(False, "after the repair of event %d (%r left; orphaned %r; status written: %s): %s "
                                          "[%s]" % (ei, sorted(leaving), orphaned, s["status"], "; ".join(problems[:4]),
                                                    ctx), nontrivial, labels,
                                   info={"kind": "agent-died", "phase": "repair", "exc": et, "frame": frame,
                                         "status": s["status"]})
                return Outcome(False, "after the repair of event %d (%r left; orphaned %r with replicas %r; status "
                                      "written: %s): %s [%s]" % (
                                          ei, sorted(leaving), orphaned, {c: rec["replicas"][c] for c in orphaned},
                                          s["status"], "; ".join(problems[:4]) + " | directory %r | actual %r | "
                                          "directory trace for the orphaned computations %r" % (
                                              s["directory"], s["actual"],
                                              [t for t in dir_trace if t[1] in orphaned][-8:]), ctx),
                               nontrivial, labels, info={"kind": kind, "status": s["status"], "problems": problems[:6]})
        return Outcome(True, "", nontrivial, labels)
    except UnderTestError as e:
        return Outcome(False, "raised %s at %s" % (e, e.frame), nontrivial, labels,
                       info={"kind": "raised", "exc": e.exc_type, "frame": e.frame})
    finally:
        sys.setswitchinterval(old_switch)
        try:
            from . import c22 as _c
            _c._patch_state["naps"] = None
        except Exception:
            pass
        if orchestrator is not None:
            try:
                if getattr(orchestrator, "_timeout_timer", None) is not None:
                    orchestrator._timeout_timer.cancel()
                if getattr(orchestrator, "_event_timer", None) is not None:
                    orchestrator._event_timer.cancel()
                orchestrator.stop_agents(5)
                orchestrator.stop()
            except Exception:
                pass
        for obj in agents_obj.values():
            try:
                obj.stop()
            except Exception:
                pass
        deadline = time.time() + 10
        while time.time() < deadline:
            extra = [t for t in threading.enumerate() if t not in before_threads and t.is_alive()]
            if not extra:
                break
            time.sleep(0.05)


def classify(case, out):
    info = out.info or {}
    if info.get("kind") == "agent-died" and info.get("exc") == "UnknownComputation":
        frame = info.get("frame", "")
        # (A) replication is requested / a replication request arrives before the agent's discovery has learnt where a
        #     neighbour computation is hosted: replication_neighbors() lets UnknownComputation kill the agent thread
        if "dist_ucs_hostingcosts.py:replication_neighbors" in frame:
            return "C27-replication-before-neighbours-known"
        # (B) Messaging retries, from a discovery callback, a parked message whose source computation is no longer
        #     registered on the agent (it was orphaned / removed meanwhile): post_msg re-raises UnknownComputation
        if "communication.py:post_msg < infrastructure/communication.py:_on_computation_registration" in frame:
            return "C27-retry-of-parked-message-from-unknown-source"
    return None
