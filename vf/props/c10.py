"""C10  Every value an algorithm selects lies in the variable's domain."""
from hypothesis import strategies as st

from .. import gen, localsearch, oracles
from ..run import Outcome, UnderTestError, under_test

PROPERTY = "C10"
LEVEL = "exploration"
TECHNIQUE = ("property-based testing (Hypothesis): all 11 shipped algorithms on generated DCOPs of their supported "
             "class under generated FIFO schedules (and virtual-clock ticks) on SimNet; invariant on every "
             "value_selection call and after every scheduler step")
LEVEL_TEXT = ("dpop, syncbb, mgm, mgm2, dsa, adsa, dsatuto, dba, gdba, maxsum and amaxsum computations, with their "
              "DEFAULT parameters (noise, damping, random initial values on) and some non-default ones, run on SimNet "
              "on generated DCOPs (each algorithm on the problem class it supports) with domains whose values cannot "
              "be mistaken for costs or indexes (strings, ints >= 100, plus ordinary small ints), under generated "
              "start/delivery schedules; A-DSA's periodic actions are fired by the virtual clock. A class-level "
              "wrapper around VariableComputation.value_selection checks every call's value, and after every step "
              "every computation's current_value must be None or a domain member. A quarter of the cases (and two whole shards) are "
              "tie DCOPs: costs 0/1/2, one domain per variable with values no other variable has, int, str and mixed. "
              "Sampling of inputs x schedules.")
LEVEL_NOTE = ("Trusted: SimNet model. Runs are bounded (step bound / stop_cycle / round count); an algorithm with zero "
              "runs in a check run is reported as a harness error, not as success.")
RULE = ("case = algorithm + parameters + DCOP of the algorithm's class + schedule + seed; non-trivial = >=2 "
        "value_selection calls after the computations' first one; distinct by sha1(case); evidence lists per-algorithm "
        "counts")
ASSUMPTIONS = ["per-channel FIFO delivery"]
BUDGET = {"quick": {"workers": 8, "examples": 120, "seconds": 50},
          "thorough": {"workers": 16, "examples": 2000, "seconds": 600}}

ALGOS = ["dpop", "syncbb", "mgm", "mgm2", "dsa", "adsa", "dsatuto", "dba", "gdba", "maxsum", "amaxsum"]
ODD_DOMS = [["R", "G"], ["R", "G", "B"], [101, 102, 103], [100, 200], ["only"], [555],
            # values of several types in one domain (anything that puts tied values into an array or sorts them
            # must give back the very objects of the domain)
            [1, "a", 2], ["x", 7], [1, "a", 2], ["x", 7], [2.5, "b", 3]]


@st.composite
def cases(draw, algos=ALGOS):
    algo = draw(st.sampled_from(list(algos)))
    kw = dict(min_vars=1, max_vars=5, min_dom=1, max_dom=3, max_constraints=6, arities=(1, 2, 2, 3), var_costs=True,
              costs=gen.mixed_costs, initial=True)
    params = {}
    if algo == "syncbb":
        kw.update(arities=(2,), var_costs=False, costs=gen.small_int_costs, nonneg_min=True)
    elif algo in ("dba",):
        kw.update(objectives=("min",), costs=st.sampled_from([0, 0, 0, 10000]), var_costs=False, kinds=("matrix",))
        params = {"max_distance": draw(st.integers(1, 6))}
    elif algo in ("gdba", "dsatuto"):
        kw.update(objectives=("min",))
    elif algo in ("maxsum", "amaxsum"):
        kw.update(costs=st.integers(0, 100), min_constraints=1)
        if draw(st.booleans()):
            params = {"damping": draw(st.sampled_from([0.0, 0.5, 0.9])), "noise": draw(st.sampled_from([0.0, 0.01, 0.5]))}
    if algo in ("mgm", "mgm2", "dsa"):
        params = {"stop_cycle": draw(st.integers(2, 8))}
    if algo == "adsa":
        params = {"period": 0.1, "variant": draw(st.sampled_from(["A", "B", "C"]))}
    if algo == "gdba":
        params = {"modifier": draw(st.sampled_from(["A", "M"])), "violation": draw(st.sampled_from(["NZ", "NM", "MX"])),
                  "increase_mode": draw(st.sampled_from(["E", "R", "C", "T"]))}
    desc = draw(gen.dcops(**kw))
    # replace some domains by values that cannot be mistaken for costs / indexes
    if draw(st.booleans()):
        for d in sorted(desc["domains"]):
            old = desc["domains"][d]
            cands = [o for o in ODD_DOMS if len(o) == len(old)]
            if cands and all(c["kind"] == "matrix" for c in desc["constraints"]):
                new = draw(st.sampled_from(cands))
                for v in desc["variables"]:
                    if v["domain"] == d:
                        if v["initial"] is not None:
                            v["initial"] = new[old.index(v["initial"])]
                        if v["cost"] and v["cost"]["kind"] == "expr":
                            v["cost"] = None
                desc["domains"][d] = list(new)
    return {"algo": algo, "params": params, "dcop": desc, "schedule": draw(gen.schedules(150)),
            "seed": draw(st.integers(0, 10000)),
            # a third of the runs pass every message through simple_repr -> json -> from_repr before delivery (what
            # crosses a process boundary): what is selected must not depend on the transport
            "wire": draw(st.integers(0, 2)) == 0}


@st.composite
def tie_cases(draw):
    """MGM2 / MGM / DSA on DCOPs full of ties where each variable has a domain of its own."""
    algo = draw(st.sampled_from(["mgm2", "mgm2", "mgm2", "mgm", "dsa", "dsatuto", "dsatuto"]))
    desc = draw(gen.tie_dcops())
    if algo == "dsatuto":
        desc["objective"] = "min"
    params = {"stop_cycle": draw(st.integers(4, 12))} if algo != "dsatuto" else {}
    if algo == "dsa":
        params["variant"] = draw(st.sampled_from(["A", "B", "C", "C"]))
    if algo == "mgm2":
        params["threshold"] = draw(st.sampled_from([0.3, 0.5, 0.7]))
        params["favor"] = draw(st.sampled_from(["unilateral", "no", "coordinated"]))
    return {"algo": algo, "params": params, "dcop": desc, "schedule": draw(gen.schedules(150)),
            "seed": draw(st.integers(0, 10000)), "wire": draw(st.integers(0, 3)) == 0}


SHARDED = True
TIE_SHARDS = (6, 7)   # these shards only run the (cheap) tie cases, many more of them


def shard_budget(tier, shard):
    return {"examples": 900 if tier == "quick" else 8000} if shard in TIE_SHARDS else {}


def case_strategy(tier, shard=0):
    import os
    only = os.environ.get("VF_ALGOS")
    if only:
        return cases(tuple(only.split(",")))
    if shard in TIE_SHARDS:
        return tie_cases()
    return st.one_of(cases(), cases(), cases(), tie_cases())


def run_case(case):
    algo, desc = case["algo"], case["dcop"]
    labels = ["algo:" + algo, "obj:" + desc["objective"]]
    bad = []
    nsel = [0]
    try:
        with under_test():
            from pydcop.infrastructure.computations import VariableComputation
        orig = VariableComputation.value_selection

        def checked(self, val, cost=0):
            nsel[0] += 1
            if val not in oracles.domain_of(desc, self.variable.name):
                bad.append((self.name, val, cost))
            return orig(self, val, cost)

        VariableComputation.value_selection = checked
        try:
            def prep(r):
                vcs = {n: c for n, c in r.comps.items() if hasattr(c, "current_value") and hasattr(c, "variable")}
                rounds = 8

                def after(net, act):
                    for n, c in vcs.items():
                        v = c.current_value
                        if v is not None and v not in oracles.domain_of(desc, c.variable.name):
                            bad.append((n, v, "current_value after step %d" % net.step))
                    if bad:
                        net.halt = True
                    if algo == "maxsum" and all(c.cycle_count >= rounds for c in r.comps.values() if c.neighbors):
                        net.halt = True
                r.net.after_step = after

            r = localsearch.run_algo(desc, algo, case["params"], case["schedule"], case["seed"],
                                     max_steps=6000, tick_budget=30 if algo == "adsa" else 0, before_run=prep,
                                     stop_on_error=True, wire=bool(case.get("wire")))
        finally:
            VariableComputation.value_selection = orig
        net = r.net
        labels.append(net.schedule_label())
        if case.get("wire"):
            labels.append("wire")
            if net.wire_failures:
                return Outcome(False, "%s: message could not be encoded/decoded for the wire: %r" % (algo, net.wire_failures[0]),
                               True, labels, info={"phase": "wire"})
        nvars = len(desc["variables"])
        nontrivial = nsel[0] >= nvars + 2
        info = {"selections": nsel[0], "steps": net.step}
        if bad:
            n, v, c = bad[0]
            return Outcome(False, "%s: computation %s selected %r (cost/notes %r); domain is %r" % (
                algo, n, v, c, oracles.domain_of(desc, r.comps[n].variable.name)), nontrivial, labels, info=info)
        if net.errors:
            labels.append("handler-raised")  # not this property's concern; counted
    except UnderTestError as e:
        return Outcome(False, "%s raised %s at %s" % (algo, e, e.frame), True, labels, info={"exc": e.exc_type})
    return Outcome(True, "", nontrivial, labels, info=info)


def coverage_extra(cov):
    per = {a: cov["labels"].get("algo:" + a, 0) for a in ALGOS}
    return {"runs_per_algorithm": per}


def postcheck(cov, tier):
    import os
    if os.environ.get("VF_ALGOS"):
        return None
    missing = [a for a, n in cov["runs_per_algorithm"].items() if n == 0]
    return ("no run for algorithm(s) %r" % missing) if missing else None
