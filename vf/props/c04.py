"""C04  A cycle with no MGM/MGM2 move means the assignment is 1-opt."""
from .. import oracles
from ..run import Outcome, UnderTestError
from . import c03

PROPERTY = "C04"
LEVEL = "exploration"
TECHNIQUE = ("property-based testing (Hypothesis): MGM/MGM2 on SimNet under generated schedules/seeds; every "
             "no-move cycle boundary is checked against a brute-force single-variable deviation oracle")
LEVEL_TEXT = ("Same generated executions as C03 (MGM and MGM2 on SimNet, generated DCOPs, schedules, seeds, "
              "parameters). For every pair of consecutive logical snapshots with A_{c+1} == A_c (a complete cycle in "
              "which no variable changed) the oracle enumerates every variable and every domain value and requires "
              "that no single-variable deviation improves the independent global cost (constraints + variable costs). "
              "All variables are included, also those that never cycle. Sampling, not exhaustive.")
LEVEL_NOTE = ("Trusted: SimNet FIFO model, reference cost evaluator. A cycle is 'complete' when every cycling "
              "computation entered both cycle c and c+1.")
RULE = ("case = DCOP + algorithm + parameters + schedule + seed; non-trivial = >=1 no-move cycle reached in a DCOP "
        "with >=2 variables and >=1 constraint of arity>=2; distinct by sha1(case)")
ASSUMPTIONS = c03.ASSUMPTIONS
BUDGET = {"quick": {"workers": 8, "examples": 1000, "seconds": 45},
          "thorough": {"workers": 16, "examples": 15000, "seconds": 600}}

case_strategy = c03.case_strategy


def improving_deviation(desc, a):
    mode = desc["objective"]
    base = oracles.total_cost(desc, a)
    for v in desc["variables"]:
        for val in desc["domains"][v["domain"]]:
            if val == a[v["name"]]:
                continue
            c = oracles.total_cost(desc, dict(a, **{v["name"]: val}))
            if oracles.better(c, base, mode) and not oracles.close(c, base):
                return v["name"], val, base, c
    return None


def classify(case, out):
    """Known finding C04-mgm2-aborted-pair: an MGM2 cycle in which a committed pair aborted its coordinated move
    (a go?=False message was sent in that very cycle).  Committed partners give up their unilateral moves and
    pairs never win ties (strict '>' against neighbours' gains) while single variables defer to the lexically
    smaller tied neighbour, so a tie between a pair and a neighbour blocks everybody."""
    if case["algo"] == "mgm2" and out.info.get("phase") == "1opt" and out.info.get("nogo_in_cycle"):
        return "C04-mgm2-aborted-pair"
    return None


def run_case(case):
    desc = case["dcop"]
    labels = []
    try:
        an = c03.analyse(case)
        labels = an.labels
        err = c03.run_errors(an)
        quiet = [c0 for c0, changed in an.moves if not changed]
        nontrivial = bool(quiet) and len(desc["variables"]) >= 2 and any(len(c["scope"]) >= 2 for c in desc["constraints"])
        if quiet:
            labels.append("no-move-cycle")
        if err:
            return Outcome(False, err, nontrivial, labels, info={"phase": "run"})
        snaps = dict(an.snaps)
        for c0 in quiet:
            dev = improving_deviation(desc, snaps[c0])
            if dev:
                n, val, base, c = dev
                isolated = not an.nb[n]
                nogo = any(getattr(m, "type", None) == "go?" and not getattr(m, "go", True) and cyc == c0
                           for _, _, _, _, m, cyc in an.run.net.trace)
                return Outcome(False, "%s(%s): no variable moved in cycle %d at %r (cost %r) but %s=%r alone gives %r"
                               % (case["algo"], desc["objective"], c0, snaps[c0], base, n, val, c), nontrivial, labels,
                               info={"phase": "1opt", "var": n, "isolated": isolated, "nogo_in_cycle": nogo,
                                     "coordinated": bool(an.coordinated)})
    except UnderTestError as e:
        return Outcome(False, "raised %s at %s" % (e, e.frame), True, labels, info={"exc": e.exc_type})
    return Outcome(True, "", nontrivial, labels, info={"cycles": len(an.snaps)})
