"""Deep structural comparison of pyDCOP objects (pyDCOP's own __eq__ is shallow).

diff(a, b) -> None when equivalent, else a short description of the first difference found.
Relations are compared by value on every assignment, variables by domain and cost on every value, nodes by
typed links and neighbours, numpy arrays elementwise, sets as sets, everything else by class and attributes.
"""
import itertools
import math
import types


def _num_eq(a, b):
    if isinstance(a, bool) or isinstance(b, bool):
        return isinstance(a, bool) and isinstance(b, bool) and a == b
    try:
        if a == b:
            return True
        return math.isnan(a) and math.isnan(b)
    except TypeError:
        return False


def diff(a, b, path="", depth=0):
    import numpy as np
    if depth > 40:
        return None
    if a is b:
        return None
    # numbers (numpy scalars included)
    if hasattr(a, "item") and not isinstance(a, np.ndarray) and np.ndim(a) == 0:
        a = a.item()
    if hasattr(b, "item") and not isinstance(b, np.ndarray) and np.ndim(b) == 0:
        b = b.item()
    if isinstance(a, (int, float)) and isinstance(b, (int, float)):
        return None if _num_eq(a, b) else "%s: %r != %r" % (path, a, b)
    if a is None or b is None or isinstance(a, str) or isinstance(b, str):
        return None if (a == b and type(a) is type(b)) else "%s: %r != %r" % (path, a, b)
    if isinstance(a, np.ndarray) or isinstance(b, np.ndarray):
        a2, b2 = np.asarray(a), np.asarray(b)
        if a2.shape != b2.shape:
            return "%s: array shapes %r != %r" % (path, a2.shape, b2.shape)
        for x, y in zip(a2.flatten().tolist(), b2.flatten().tolist()):
            if not _num_eq(x, y):
                return "%s: array element %r != %r" % (path, x, y)
        return None
    if isinstance(a, (set, frozenset)):
        if not isinstance(b, (set, frozenset, list, tuple)):
            return "%s: set became %s" % (path, type(b).__name__)
        try:
            sa, sb = sorted(a, key=repr), sorted(b, key=repr)
        except Exception:
            sa, sb = list(a), list(b)
        return diff(sa, sb, path + "{set}", depth + 1)
    if isinstance(a, dict):
        if not isinstance(b, dict):
            return "%s: dict became %s" % (path, type(b).__name__)
        if set(map(repr, a)) != set(map(repr, b)) or {type(k) for k in a} != {type(k) for k in b}:
            return "%s: dict keys %r != %r" % (path, sorted(map(repr, a))[:8], sorted(map(repr, b))[:8])
        bk = {repr(k): k for k in b}
        for k in a:
            d = diff(a[k], b[bk[repr(k)]], "%s[%r]" % (path, k), depth + 1)
            if d:
                return d
        return None
    if isinstance(a, (list, tuple)):
        if type(a) is not type(b) and not (hasattr(a, "_fields") and hasattr(b, "_fields")):
            return "%s: %s became %s" % (path, type(a).__name__, type(b).__name__)
        if len(a) != len(b):
            return "%s: length %d != %d" % (path, len(a), len(b))
        for i, (x, y) in enumerate(zip(a, b)):
            d = diff(x, y, "%s[%d]" % (path, i), depth + 1)
            if d:
                return d
        return None
    if isinstance(a, (types.FunctionType, types.BuiltinFunctionType, types.MethodType)):
        return None if a is b else "%s: functions differ" % path
    # ---- pyDCOP objects
    from pydcop.dcop.objects import AgentDef, Domain, Variable
    from pydcop.dcop.relations import RelationProtocol
    from pydcop.computations_graph.objects import ComputationNode, Link
    from pydcop.infrastructure.computations import Message
    if isinstance(a, Message) and isinstance(b, Message):
        # classes built by message_type() are re-created on decoding: compare type name and fields
        if a.type != b.type:
            return "%s: message type %r != %r" % (path, a.type, b.type)
        if type(a) is not type(b) and not (type(a).__qualname__ == type(b).__qualname__):
            return "%s: message class %s != %s" % (path, type(a).__qualname__, type(b).__qualname__)
        return _attrs(a, b, path, depth)
    if type(a) is not type(b):
        return "%s: class %s != %s" % (path, type(a).__name__, type(b).__name__)
    if isinstance(a, Domain):
        return (diff(a.name, b.name, path + ".name", depth + 1) or diff(a.type, b.type, path + ".type", depth + 1)
                or diff(list(a.values), list(b.values), path + ".values", depth + 1))
    if isinstance(a, Variable):
        d = (diff(a.name, b.name, path + ".name", depth + 1) or diff(a.domain, b.domain, path + ".domain", depth + 1)
             or diff(a.initial_value, b.initial_value, path + ".initial_value", depth + 1))
        if d:
            return d
        for v in a.domain.values:
            try:
                ca, cb = a.cost_for_val(v), b.cost_for_val(v)
            except Exception as e:  # noisy cost functions etc.
                return "%s: cost_for_val(%r) raised %r" % (path, v, e)
            if type(a).__name__ != "VariableNoisyCostFunc" and not _num_eq(ca, cb):
                return "%s(%s): cost_for_val(%r) %r != %r" % (path, a.name, v, ca, cb)
        if hasattr(a, "value"):
            return diff(a.value, b.value, path + ".value", depth + 1)
        return None
    if isinstance(a, RelationProtocol):
        d = diff(a.name, b.name, path + ".name", depth + 1)
        if d:
            return d
        da, db = list(a.dimensions), list(b.dimensions)
        if [v.name for v in da] != [v.name for v in db]:
            return "%s(%s): dimensions %r != %r" % (path, a.name, [v.name for v in da], [v.name for v in db])
        for x, y in zip(da, db):
            d = diff(x, y, "%s.dim(%s)" % (path, x.name), depth + 1)
            if d:
                return d
        names = [v.name for v in da]
        for vals in itertools.product(*[list(v.domain.values) for v in da]):
            kw = dict(zip(names, vals))
            va = a(**kw) if kw else a.get_value_for_assignment({})
            vb = b(**kw) if kw else b.get_value_for_assignment({})
            if diff(va, vb, "", depth + 1):
                return "%s(%s): value at %r: %r != %r" % (path, a.name, kw, va, vb)
        return None
    if isinstance(a, Link):
        d = diff(a.type, b.type, path + ".type", depth + 1) or diff(set(a.nodes), set(b.nodes), path + ".nodes", depth + 1)
        if d:
            return d
        for attr in ("source", "target", "name", "factor_node", "variable_node"):
            if hasattr(a, attr):
                d = diff(getattr(a, attr), getattr(b, attr, "<missing>"), "%s.%s" % (path, attr), depth + 1)
                if d:
                    return d
        return None
    if isinstance(a, ComputationNode):
        d = (diff(a.name, b.name, path + ".name", depth + 1) or diff(a.type, b.type, path + ".type", depth + 1)
             or diff(set(a.neighbors), set(b.neighbors), path + ".neighbors", depth + 1))
        if d:
            return d
        la = sorted(a.links, key=lambda l: (str(l.type), sorted(l.nodes), str(getattr(l, "target", ""))))
        lb = sorted(b.links, key=lambda l: (str(l.type), sorted(l.nodes), str(getattr(l, "target", ""))))
        if len(la) != len(lb):
            return "%s(%s): %d links became %d (%r vs %r)" % (path, a.name, len(la), len(lb), la, lb)
        for i, (x, y) in enumerate(zip(la, lb)):
            d = diff(x, y, "%s(%s).links[%d]" % (path, a.name, i), depth + 1)
            if d:
                return d
        for attr in ("variable", "factor"):
            if hasattr(a, attr):
                d = diff(getattr(a, attr), getattr(b, attr), "%s.%s" % (path, attr), depth + 1)
                if d:
                    return d
        if hasattr(a, "constraints"):
            ca = sorted(a.constraints, key=lambda c: c.name)
            cb = sorted(b.constraints, key=lambda c: c.name)
            d = diff(ca, cb, path + ".constraints", depth + 1)
            if d:
                return d
        if hasattr(a, "constraints_names"):
            d = diff(sorted(a.constraints_names), sorted(b.constraints_names), path + ".constraints_names", depth + 1)
            if d:
                return d
        return None
    if isinstance(a, AgentDef):
        for attr in ("name", "default_route", "routes", "default_hosting_cost", "hosting_costs"):
            try:
                xa, xb = getattr(a, attr), getattr(b, attr)
            except Exception as e:
                return "%s.%s: %r" % (path, attr, e)
            d = diff(xa, xb, "%s.%s" % (path, attr), depth + 1)
            if d:
                return d
        return diff(dict(a.extra_attr()), dict(b.extra_attr()), path + ".extra_attr", depth + 1)
    return _attrs(a, b, path, depth)


def _attrs(a, b, path, depth):
    try:
        va, vb = vars(a), vars(b)
    except TypeError:
        return None if a == b else "%s: %r != %r" % (path, a, b)
    ka = {k for k in va if not k.startswith("__")}
    kb = {k for k in vb if not k.startswith("__")}
    skip = {"logger", "_cb", "exp_func"}
    if (ka - skip) != (kb - skip):
        return "%s: attributes %r != %r" % (path, sorted(ka - kb), sorted(kb - ka))
    for k in sorted(ka - skip):
        d = diff(va[k], vb[k], "%s.%s" % (path, k), depth + 1)
        if d:
            return d
    return None
