"""Hypothesis strategies producing JSON-serialisable case descriptions (DESIGN.md 2.5)."""
import itertools

from hypothesis import strategies as st

# names with adversarial orderings: lexical != numeric, one name prefix/substring of another
# ... and mixed case (lexical order puts every upper-case letter before the lower-case ones)
NAME_POOL = ["v1", "v10", "v2", "v11", "x", "xa", "a_b", "v3", "y1", "w", "v20", "ab", "B", "Temp", "X"]

# [-2, -1, 0]: CPython hashes -1 and -2 to the same value (anything keyed on hash() of domain values must cope)
INT_DOMS = [[0], [0, 1], [0, 1, 2], [1, 2, 3], [-1, 0, 1], [2, 5], [0, 1, 2, 3], [3], [-2, -1, 0]]
# ... and one domain mixing value types (nothing in the library requires homogeneous domains)
STR_DOMS = [["R", "G"], ["R", "G", "B"], ["a"], ["on", "off"], ["off", 1, 2]]

small_int_costs = st.integers(-50, 50)
nonneg_int_costs = st.integers(0, 50)
dyadic_costs = st.integers(-200, 200).map(lambda k: k / 4)
mixed_costs = st.one_of(small_int_costs, small_int_costs, dyadic_costs)
tie_costs = st.integers(0, 2)


def nested_table(draw, shape, costs):
    if not shape:
        return draw(costs)
    n = 1
    for s in shape:
        n *= s
    flat = draw(st.lists(costs, min_size=n, max_size=n))

    def build(off, shp):
        if len(shp) == 1:
            return flat[off:off + shp[0]], off + shp[0]
        out = []
        for _ in range(shp[0]):
            sub, off = build(off, shp[1:])
            out.append(sub)
        return out, off

    return build(0, list(shape))[0]


def int_expression(draw, scope, coef=st.integers(-9, 9)):
    """Expression over int-valued names mentioning every scope name, asymmetric by construction."""
    terms = []
    used = set()
    for i, n in enumerate(scope):
        c = draw(coef.filter(lambda k: k != 0))
        # distinct magnitudes make argument permutations visible
        c = c * (i + 1) if draw(st.booleans()) else c
        terms.append("%d * %s" % (c, n))
    if len(scope) >= 2:
        extra = draw(st.sampled_from(["none", "prod", "absdiff", "cond", "minmax"]))
        a, b = scope[0], scope[-1]
        if extra == "prod":
            terms.append("%s * %s" % (a, b))
        elif extra == "absdiff":
            terms.append("abs(%s - 2 * %s)" % (a, b))
        elif extra == "cond":
            terms.append("(%d if %s == %s else %d)" % (draw(st.integers(0, 20)), a, b, draw(st.integers(0, 20))))
        elif extra == "minmax":
            terms.append("max(%s, 3 * %s)" % (a, b))
    else:
        extra = draw(st.sampled_from(["none", "cond"]))
        if extra == "cond":
            terms.append("(%d if %s > 0 else 0)" % (draw(st.integers(1, 20)), scope[0]))
    return " + ".join(terms).replace("+ -", "- ")


def any_expression(draw, scope, doms):
    """Expression usable with str (or mixed) domains: sum of per-variable indicator costs."""
    terms = []
    for i, n in enumerate(scope):
        val = draw(st.sampled_from(doms[n]))
        terms.append("(%d if %s == %r else %d)" % (draw(st.integers(-20, 20)), n, val, draw(st.integers(-20, 20))))
    if len(scope) >= 2:
        terms.append("(%d if %s == %s else 0)" % (draw(st.integers(1, 30)), scope[0], scope[-1]))
    return " + ".join(terms)


def expression_for(draw, scope, doms):
    if all(all(isinstance(x, int) for x in doms[n]) for n in scope):
        return int_expression(draw, scope)
    return any_expression(draw, scope, doms)


@st.composite
def dcops(draw, min_vars=1, max_vars=6, max_dom=3, min_dom=1, max_constraints=7, arities=(1, 2, 3),
          kinds=("matrix", "expr"), var_costs=True, objectives=("min", "max"), shape="any",
          costs=mixed_costs, str_domains=True, initial=False, min_constraints=0,
          nonneg_min=False):
    """A DCOP description.  shape: any | forest (acyclic factor graph) | connected."""
    n = draw(st.integers(min_vars, max_vars))
    names = draw(st.lists(st.sampled_from(NAME_POOL), min_size=n, max_size=n, unique=True))
    objective = draw(st.sampled_from(list(objectives)))
    if costs is mixed_costs:
        # one case in three draws every cost from {0,1,2}: equal gains / ties between neighbours become common
        costs = draw(st.sampled_from([mixed_costs, mixed_costs, tie_costs]))
    if nonneg_min and objective == "min":
        costs = nonneg_int_costs
        kinds = ("matrix",)  # generated expressions have negative coefficients
    pool = [d for d in INT_DOMS if min_dom <= len(d) <= max_dom]
    if str_domains:
        pool = pool + [d for d in STR_DOMS if min_dom <= len(d) <= max_dom]
    ndoms = draw(st.integers(1, min(3, n)))
    domvals = draw(st.lists(st.sampled_from(pool), min_size=ndoms, max_size=ndoms))
    domains = {"d%d" % i: list(v) for i, v in enumerate(domvals)}
    dnames = sorted(domains)
    variables = []
    doms = {}
    for nm in names:
        d = draw(st.sampled_from(dnames))
        doms[nm] = domains[d]
        v = {"name": nm, "domain": d, "cost": None, "initial": None}
        if var_costs and draw(st.integers(0, 2)) == 0:
            if all(isinstance(x, int) for x in domains[d]) and draw(st.booleans()):
                v["cost"] = {"kind": "expr", "expr": int_expression(draw, [nm])}
            else:
                v["cost"] = {"kind": "dict",
                             "costs": draw(st.lists(costs, min_size=len(domains[d]), max_size=len(domains[d])))}
                if draw(st.booleans()):
                    v["cost"]["key_order"] = draw(st.integers(0, 23))
                if draw(st.integers(0, 3)) == 0:
                    v["cost"]["drop_zero"] = True
        if initial and draw(st.booleans()):
            v["initial"] = draw(st.sampled_from(domains[d]))
        variables.append(v)

    constraints = []
    comp = {nm: nm for nm in names}  # union-find for forest shape

    def find(x):
        while comp[x] != x:
            x = comp[x]
        return x

    def add(scope, kind=None):
        kind = kind or draw(st.sampled_from(list(kinds)))
        c = {"name": "c%d" % len(constraints), "scope": list(scope), "kind": kind}
        if kind == "matrix":
            c["table"] = nested_table(draw, [len(doms[s]) for s in scope], costs)
            if len(scope) >= 2 and draw(st.integers(0, 5)) == 0:
                c["layout"] = "F"   # column-major numpy array: same table, other memory order
        else:
            c["expr"] = expression_for(draw, scope, doms)
        constraints.append(c)
        r = find(scope[0])
        for s in scope[1:]:
            comp[find(s)] = r

    if shape == "connected" and n > 1:
        order = draw(st.permutations(names))
        for i in range(1, n):
            j = draw(st.integers(0, i - 1))
            add([order[j], order[i]] if draw(st.booleans()) else [order[i], order[j]])
    k = draw(st.integers(min_constraints, max_constraints))
    ar_ok = [a for a in arities if a <= n]
    for _ in range(k):
        if len(constraints) >= max_constraints or not ar_ok:
            break
        a = draw(st.sampled_from(ar_ok))
        if shape == "forest":
            roots = sorted({find(x) for x in names})
            if a > len(roots):
                a = 1
                if 1 not in arities:
                    continue
            if a == 1:
                scope = [draw(st.sampled_from(names))]
            else:
                rs = draw(st.lists(st.sampled_from(roots), min_size=a, max_size=a, unique=True))
                scope = [draw(st.sampled_from(sorted(x for x in names if find(x) == r))) for r in rs]
        else:
            scope = draw(st.lists(st.sampled_from(names), min_size=a, max_size=a, unique=True))
        add(scope)
    return {"objective": objective, "domains": domains, "variables": variables,
            "constraints": constraints}


@st.composite
def tie_dcops(draw, min_vars=3, max_vars=5):
    """Connected binary DCOPs where every cost is 0, 1 or 2 (equal gains between neighbours, between a pair and a third
    variable, between two offers are the rule, not the exception) and every variable has a domain of its own whose
    values belong to no other variable (a value that travels to the wrong variable is visible at once)."""
    n = draw(st.integers(min_vars, max_vars))
    names = draw(st.lists(st.sampled_from(NAME_POOL), min_size=n, max_size=n, unique=True))
    domains, variables, doms = {}, [], {}
    for i, nm in enumerate(names):
        k = draw(st.sampled_from([2, 2, 3]))
        style = draw(st.sampled_from(["int", "str", "mixed"]))
        vals = [10 * (i + 1) + j if style == "int" or (style == "mixed" and j != 1) else "%s%d" % ("pqrst"[i], j)
                for j in range(k)]
        domains["d%d" % i] = vals
        doms[nm] = vals
        variables.append({"name": nm, "domain": "d%d" % i, "cost": None,
                          "initial": draw(st.one_of(st.none(), st.sampled_from(vals)))})
    constraints = []
    order = draw(st.permutations(names))
    edges = set()
    for i in range(1, n):
        edges.add((order[draw(st.integers(0, i - 1))], order[i]))
    for _ in range(draw(st.integers(0, 2))):
        a, b = draw(st.lists(st.sampled_from(names), min_size=2, max_size=2, unique=True))
        if (a, b) not in edges and (b, a) not in edges:
            edges.add((a, b))
    for a, b in sorted(edges):
        constraints.append({"name": "c%d" % len(constraints), "scope": [a, b], "kind": "matrix",
                            "table": nested_table(draw, [len(doms[a]), len(doms[b])], tie_costs)})
    return {"objective": draw(st.sampled_from(["min", "max"])), "domains": domains, "variables": variables,
            "constraints": constraints}


def lift_big_m(desc, m=10 ** 18):
    """Turn every all-integer cost table into 'big-M or 0, plus a small integer' (odd entries get the penalty m):
    the classical encoding of hard constraints next to soft preferences.  Costs, and differences of costs, then need
    more than 53 bits.  -> True if a table was changed."""
    changed = False

    def ints(t):
        return all(ints(x) for x in t) if isinstance(t, list) else (isinstance(t, int) and not isinstance(t, bool))

    def lift(t):
        return [lift(x) for x in t] if isinstance(t, list) else (m if t % 2 else 0) + t

    # exactness beyond 53 bits is only a fair demand when nothing in the problem is a float to begin with: one float
    # entry turns a whole numpy table - and every sum it takes part in - into floats
    for c in desc["constraints"]:
        if c["kind"] == "matrix" and not ints(c["table"]):
            return False
    for v in desc["variables"]:
        # (a value missing from a cost dict costs 0.0, a float)
        if v.get("cost") and v["cost"]["kind"] == "dict" and (not ints(v["cost"]["costs"]) or v["cost"].get("drop_zero")):
            return False
    for c in desc["constraints"]:
        if c["kind"] == "matrix":
            c["table"] = lift(c["table"])
            changed = True
    return changed


def slow_sets():
    """Indices (mod #computations) of computations the scheduler serves last; mostly empty."""
    return st.one_of(st.just([]), st.just([]), st.lists(st.integers(0, 7), min_size=1, max_size=2))


def _lcg_schedule(t):
    seed, n = t
    out, x = [], seed or 1
    for _ in range(n):
        x = (x * 1103515245 + 12345) % (2 ** 31)
        out.append((x >> 8) % 1000)
    return out


def schedules(max_len=60):
    """A delivery/start schedule: list of ints interpreted by SimNet.  Mix of near-canonical
    (short), long uniform and adversarial (skewed towards extreme indices) shapes."""
    uni = st.lists(st.integers(0, 1000), max_size=max_len)
    short = st.lists(st.integers(0, 1000), max_size=6)
    skew = st.lists(st.sampled_from([0, 0, 0, 1, 999, 999, 998]), max_size=max_len)
    # long pseudo-random schedules expanded from (seed, length) by a fixed LCG: a pure function of the generated
    # pair (no RNG call), cheap for Hypothesis to produce, shrinks towards short / small seeds
    scrambled = st.tuples(st.integers(0, 2 ** 31 - 1), st.integers(10, 4 * max_len)).map(_lcg_schedule)
    base = st.one_of(short, uni, uni, skew, scrambled, scrambled)
    # optional prefix declaring slow computations (see vf/simnet.py: entries >= 10000)
    return st.tuples(slow_sets(), base).map(lambda t: [10000 + i for i in t[0]] + t[1])


def dcop_labels(desc):
    from . import oracles
    lab = []
    ars = sorted({len(c["scope"]) for c in desc["constraints"]})
    lab.append("arity:" + ("".join(map(str, ars)) or "none"))
    lab.append("obj:" + desc["objective"])
    lab.append("comps:%d" % min(3, len(oracles.components(desc))))
    if any(v.get("cost") for v in desc["variables"]):
        lab.append("varcost")
    if any(c["kind"] == "expr" for c in desc["constraints"]):
        lab.append("expr")
    return lab
