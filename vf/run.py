"""Runner for the property checks (DESIGN.md section 2).

    python -m vf.run <ID> quick|thorough
    python -m vf.run <ID> --replay <file>
    python -m vf.run --worker <ID> <tier> <shard> <hyp_seed> <outfile>   (internal)

Exit codes: 0 property held on everything explored (open known findings are printed as
KNOWN-FINDING lines), 1 after a line `VIOLATION property=<id> replay=<path>`, 2 harness
error.  The parent process never imports pyDCOP; workers are fresh interpreters so every
run executes /repo's current working tree.
"""
import hashlib
import importlib
import json
import os
import shutil
import subprocess
import sys
import tempfile
import time
import traceback
from collections import Counter

ROOT = os.path.dirname(os.path.dirname(os.path.abspath(__file__)))
REPO = os.environ.get("VERIF_REPO", "/repo")
KNOWN_FILE = os.path.join(ROOT, "known_findings.json")


# --------------------------------------------------------------------------- outcome


class Outcome:
    """Result of running one case against the code under test."""

    __slots__ = ("ok", "why", "nontrivial", "labels", "discard", "info")

    def __init__(self, ok=True, why="", nontrivial=False, labels=(), discard=False, info=None):
        self.ok = ok
        self.why = why
        self.nontrivial = nontrivial
        self.labels = list(labels)
        self.discard = discard
        self.info = info or {}


class UnderTestError(Exception):
    """An exception raised by pyDCOP code (not by the harness) inside `under_test()`."""

    def __init__(self, exc, frame):
        super().__init__("%s: %s" % (type(exc).__name__, str(exc)[:300]))
        self.exc = exc
        self.exc_type = type(exc).__name__
        self.frame = frame  # innermost frame inside the repository: "file.py:func"


class under_test:
    """Context manager: exceptions raised inside are attributed to the code under test and
    re-raised as UnderTestError so that run_case can turn them into an Outcome.  Anything
    raised outside such a block is a harness error (exit 2), never a violation."""

    def __enter__(self):
        return self

    def __exit__(self, et, ev, tb):
        if et is None or et is UnderTestError:
            return False
        if et in (KeyboardInterrupt, SystemError, MemoryError) or getattr(et, "_vf_harness", False):
            return False   # (exceptions raised by the harness itself pass through unchanged)
        frame = "?"
        for fs in traceback.extract_tb(tb):
            fn = fs.filename.replace("\\", "/")
            if "/pydcop/" in fn:
                frame = "%s:%s" % (fn.split("/pydcop/", 1)[1], fs.name)
        raise UnderTestError(ev, frame) from ev


def digest_of(obj):
    return hashlib.sha1(json.dumps(obj, sort_keys=True, default=str).encode()).hexdigest()[:14]


def _size(case):
    return len(json.dumps(case, sort_keys=True, default=str))


def load_known():
    if not os.path.exists(KNOWN_FILE):
        return []
    with open(KNOWN_FILE) as f:
        return json.load(f)["findings"]


def open_findings(prop):
    return {k["id"]: k for k in load_known() if k["property"] == prop and k["status"] == "open"}


def load_module(prop):
    return importlib.import_module("vf.props." + prop.lower())


def _shorten(obj, limit=3000):
    s = json.dumps(obj, sort_keys=True, default=str)
    if len(s) <= limit:
        return obj
    return {"truncated_json": s[:limit] + " ...", "full_length": len(s)}


# --------------------------------------------------------------------------- stats


class Stats:
    def __init__(self):
        self.evaluations = 0
        self.discarded = 0
        self.nontrivial = set()
        self.labels = Counter()
        self.samples = []
        self.sample_labels = set()
        self.known = Counter()
        self.known_samples = {}
        self.fail = None  # smallest violating (case, why, labels)
        self.error = None
        self.inconclusive = 0
        self.first_fail_t = None

    def sample(self, case, out):
        new = [l for l in out.labels if l not in self.sample_labels]
        nt = sum(1 for s in self.samples if s["nontrivial"])
        if (out.nontrivial and (nt < 2 or (new and nt < 8))) or (not out.nontrivial and len(self.samples) - nt < 1):
            self.sample_labels.update(out.labels)
            self.samples.append({"case": _shorten(case), "labels": out.labels, "info": out.info,
                                 "nontrivial": bool(out.nontrivial)})

    def dump(self, **extra):
        d = dict(
            evaluations=self.evaluations, discarded=self.discarded,
            nontrivial=sorted(self.nontrivial), labels=dict(self.labels), samples=self.samples,
            known=dict(self.known), known_samples=self.known_samples, fail=self.fail,
            error=self.error, inconclusive=self.inconclusive)
        d.update(extra)
        return d


def evaluate(mod, case, st, known_open):
    """Run one case, update stats, return None or (why, labels) for an unlisted violation."""
    out = mod.run_case(case)
    st.evaluations += 1
    if out.discard:
        st.discarded += 1
        for l in out.labels:
            if l.startswith(("inconclusive:", "no-footprint:", "discard:")):
                st.labels[l] += 1
        return None
    for l in out.labels:
        st.labels[l] += 1
    if out.info.get("inconclusive"):
        st.inconclusive += 1
    if out.ok:
        if out.nontrivial:
            st.nontrivial.add(digest_of(case))
        st.sample(case, out)
        return None
    fid = mod.classify(case, out) if hasattr(mod, "classify") else None
    if fid is not None and fid in known_open:
        st.known[fid] += 1
        if fid not in st.known_samples or _size(case) < _size(st.known_samples[fid]["case"]):
            st.known_samples[fid] = {"case": _shorten(case), "why": out.why}
        if out.nontrivial:
            st.nontrivial.add(digest_of(case))
        return None
    return out


# --------------------------------------------------------------------------- worker


def _prepare_process():
    import logging
    logging.disable(logging.CRITICAL)
    if REPO not in sys.path[:2]:
        sys.path.insert(0, REPO)
    tmp = tempfile.mkdtemp(prefix="vf_")
    os.chdir(tmp)
    return tmp


def worker_main(prop, tier, shard, hyp_seed, outfile):
    t0 = time.time()
    tmp = _prepare_process()
    st = Stats()
    try:
        import hypothesis
        from hypothesis import HealthCheck, Phase, given, settings
        mod = load_module(prop)
        budget = dict(mod.BUDGET[tier])
        if hasattr(mod, "shard_budget"):
            budget.update(mod.shard_budget(tier, shard) or {})
        known_open = open_findings(prop)
        t_end = t0 + budget.get("seconds", 60)
        shrink_s = budget.get("shrink_seconds", 45 if tier == "quick" else 180)
        strat = mod.case_strategy(tier, shard) if getattr(mod, "SHARDED", False) else mod.case_strategy(tier)

        class Violation(AssertionError):
            pass

        # Once the time budget is used up (and nothing is being shrunk) the strategy itself turns into a constant:
        # Hypothesis then runs through its remaining examples in microseconds instead of generating thousands of
        # cases nobody evaluates (a worker that is still generating when the parent's limit expires loses everything).
        from hypothesis import strategies as _hs
        real_strat = strat

        def _pick(_):
            if st.fail is None and time.time() > t_end:
                return _hs.just(None)
            return real_strat

        if tier != "quick":     # quick tiers are sized to end before their time budget; flatmap is not free
            strat = _hs.builds(lambda: 0).flatmap(_pick)

        @hypothesis.seed(hyp_seed)
        @settings(max_examples=budget["examples"], database=None, deadline=None,
                  derandomize=False, report_multiple_bugs=False,
                  suppress_health_check=list(HealthCheck), verbosity=hypothesis.Verbosity.quiet,
                  phases=[Phase.generate, Phase.shrink])
        @given(strat)
        def test(case):
            now = time.time()
            if case is None or st.error is not None:
                return
            if st.fail is None:
                if now > t_end:
                    return
            elif now > st.first_fail_t + shrink_s:
                return
            try:
                out = evaluate(mod, case, st, known_open)
            except BaseException as e:  # harness error: stop exploring, report
                if isinstance(e, (KeyboardInterrupt,)):
                    raise
                if type(e).__module__.startswith("hypothesis"):
                    raise
                st.error = "".join(traceback.format_exception(type(e), e, e.__traceback__))[-4000:]
                st.error += "\nCASE: " + json.dumps(case, default=str)[:3000]
                return
            if out is not None:
                if st.fail is None:
                    st.first_fail_t = now
                if st.fail is None or _size(case) <= _size(st.fail["case"]):
                    st.fail = {"case": case, "why": out.why, "labels": out.labels}
                raise Violation(out.why)

        try:
            test()
        except Violation:
            pass
        except BaseException as e:
            if st.fail is None and st.error is None:
                if not type(e).__name__ in ("Flaky", "FlakyFailure", "Unsatisfiable"):
                    st.error = "".join(traceback.format_exception(type(e), e, e.__traceback__))[-4000:]
                elif type(e).__name__ == "Unsatisfiable":
                    st.error = "generator unsatisfiable: " + str(e)
        if hasattr(mod, "worker_teardown"):
            mod.worker_teardown()
        pm = sys.modules.get("pydcop")
        if pm is not None and not os.path.realpath(pm.__file__).startswith(os.path.realpath(REPO) + os.sep):
            st.error = "pydcop imported from %s, not from %s" % (pm.__file__, REPO)
    except BaseException as e:
        st.error = "".join(traceback.format_exception(type(e), e, e.__traceback__))[-4000:]
    with open(outfile, "w") as f:
        json.dump(st.dump(wall_s=time.time() - t0, shard=shard, hyp_seed=hyp_seed,
                          hashseed=os.environ.get("PYTHONHASHSEED")), f, default=str)
    os.chdir("/")
    shutil.rmtree(tmp, ignore_errors=True)
    sys.stdout.flush()
    os._exit(0)  # do not wait for stray daemon threads


def corpus_main(prop, outfile):
    """Replay every committed regression case of the property."""
    tmp = _prepare_process()
    res = {"results": [], "error": None}
    try:
        mod = load_module(prop)
        known_open = open_findings(prop)
        cdir = os.path.join(ROOT, "corpus", prop)
        files = sorted(os.listdir(cdir)) if os.path.isdir(cdir) else []
        for fn in files:
            if not fn.endswith(".json"):
                continue
            path = os.path.join(cdir, fn)
            with open(path) as f:
                doc = json.load(f)
            case = doc["case"] if isinstance(doc, dict) and "case" in doc else doc
            out = mod.run_case(case)
            fid = None
            if not out.ok and not out.discard and hasattr(mod, "classify"):
                fid = mod.classify(case, out)
            res["results"].append({"file": path, "ok": bool(out.ok or out.discard), "why": out.why,
                                   "finding": fid, "known": fid in known_open,
                                   "nontrivial": bool(out.nontrivial), "digest": digest_of(case)})
    except BaseException as e:
        res["error"] = "".join(traceback.format_exception(type(e), e, e.__traceback__))[-4000:]
    with open(outfile, "w") as f:
        json.dump(res, f)
    os.chdir("/")
    shutil.rmtree(tmp, ignore_errors=True)
    sys.stdout.flush()
    os._exit(0)


# --------------------------------------------------------------------------- parent


def _spawn(args, hashseed, log):
    env = dict(os.environ)
    env["PYTHONHASHSEED"] = str(hashseed)
    return subprocess.Popen([sys.executable, "-W", "ignore", "-m", "vf.run"] + args, env=env,
                            stdout=log, stderr=subprocess.STDOUT, cwd=ROOT)


def write_evidence(prop, mod, tier, seed, wall, cov, violations):
    evdir = os.environ.get("VERIF_EVIDENCE_DIR") or os.path.join(ROOT, "evidence")  # override: mutant runs only
    os.makedirs(evdir, exist_ok=True)
    ev = {
        "property_id": prop, "tier": tier, "seed": seed,
        "level": getattr(mod, "LEVEL", "exploration"), "coverage": cov,
        "assumptions": list(getattr(mod, "ASSUMPTIONS", [])), "wall_s": round(wall, 2),
        "violations": violations,
    }
    path = os.path.join(evdir, prop + ".json")
    tmp = path + ".tmp"
    with open(tmp, "w") as f:
        json.dump(ev, f, indent=1, sort_keys=True, default=str)
    os.replace(tmp, path)


def write_replay(prop, case, why):
    d = os.path.join(os.environ.get("VERIF_REPLAY_DIR") or os.path.join(ROOT, "replays"), prop)
    os.makedirs(d, exist_ok=True)
    path = os.path.join(d, digest_of(case) + ".json")
    with open(path, "w") as f:
        json.dump({"property": prop, "why": why, "case": case}, f, indent=1, default=str)
    return path


def parent_main(prop, tier):
    t0 = time.time()
    seed = int(os.environ.get("VERIF_SEED", "1") or 1)
    mod = load_module(prop)
    budget = dict(mod.BUDGET[tier])
    nworkers = int(os.environ.get("VERIF_WORKERS", budget.get("workers", 4)))
    hashseeds = getattr(mod, "HASHSEEDS", None)
    outdir = tempfile.mkdtemp(prefix="vfrun_")
    procs = []
    log = open(os.path.join(outdir, "log"), "w")
    cfile = os.path.join(outdir, "corpus.json")
    procs.append((_spawn(["--corpus", prop, cfile], 0, log), cfile, "corpus"))
    for i in range(nworkers):
        if hashseeds:
            hs = hashseeds[i % len(hashseeds)]
            hyp_seed = seed * 1000 + i // len(hashseeds)
        else:
            hs, hyp_seed = 0, seed * 1000 + i
        of = os.path.join(outdir, "w%d.json" % i)
        procs.append((_spawn(["--worker", prop, tier, str(i), str(hyp_seed), of], hs, log), of, i))
    limit = t0 + budget.get("seconds", 60) * 2 + budget.get("shrink_seconds", 45 if tier == "quick" else 180) + 120
    killed = []
    for p, of, tag in procs:
        try:
            p.wait(timeout=max(1, limit - time.time()))
        except subprocess.TimeoutExpired:
            p.kill()
            p.wait()
            killed.append(tag)
    log.close()
    results, errors = [], []
    corpus = {"results": [], "error": None}
    for p, of, tag in procs:
        if not os.path.exists(of):
            if tag not in killed:
                errors.append("worker %s produced no output (exit %s)" % (tag, p.returncode))
            continue
        with open(of) as f:
            d = json.load(f)
        if tag == "corpus":
            corpus = d
            if d["error"]:
                errors.append("corpus: " + d["error"])
        else:
            results.append(d)
            if d["error"]:
                errors.append("shard %s: %s" % (tag, d["error"]))
    with open(os.path.join(outdir, "log")) as f:
        logtxt = f.read()
    shutil.rmtree(outdir, ignore_errors=True)

    known_open = open_findings(prop)
    # ---- merge
    evaluations = sum(r["evaluations"] for r in results) + len(corpus["results"])
    nontrivial = set()
    labels = Counter()
    known = Counter()
    samples, known_samples = [], {}
    fails = []
    for r in results:
        nontrivial.update(r["nontrivial"])
        labels.update(r["labels"])
        known.update(r["known"])
        for s in sorted(r["samples"], key=lambda s: not s.get("nontrivial")):
            if len(samples) < 8 and (s.get("nontrivial") or not any(not x.get("nontrivial") for x in samples)):
                samples.append(s)
        for k, v in r["known_samples"].items():
            known_samples.setdefault(k, v)
        if r["fail"]:
            fails.append(r["fail"])
    corpus_viol = []
    for c in corpus["results"]:
        if c["nontrivial"] or not c["ok"]:
            nontrivial.add(c["digest"])
        if not c["ok"]:
            if c["known"]:
                known[c["finding"]] += 1
            else:
                corpus_viol.append(c)
    violations = len(fails) + len(corpus_viol)
    cov = {
        "evaluations": evaluations,
        "distinct_nontrivial": len(nontrivial),
        "rule": getattr(mod, "RULE", ""),
        "samples": samples or [{"note": "no sample retained"}],
        "labels": dict(sorted(labels.items())),
        "discarded_by_precondition": sum(r["discarded"] for r in results),
        "inconclusive_bound_hits": sum(r["inconclusive"] for r in results),
        "excluded_known": dict(known),
        "known_samples": known_samples,
        "corpus_cases": len(corpus["results"]),
        "shards": len(results), "shards_killed_on_timeout": len(killed),
        "hashseeds": hashseeds or [0],
        "exhaustive": False,
    }
    if hasattr(mod, "coverage_extra"):
        cov.update(mod.coverage_extra(cov))
    if hasattr(mod, "postcheck") and not violations:
        perr = mod.postcheck(cov, tier)  # e.g. "an interesting class was never generated": harness error
        if perr:
            errors.append("postcheck: " + perr)
    wall = time.time() - t0
    rc = 0
    if violations:
        rc = 1
        if corpus_viol:
            c = corpus_viol[0]
            print("VIOLATION property=%s replay=%s" % (prop, c["file"]))
            print("  why: %s" % c["why"])
        else:
            f = min(fails, key=lambda f: _size(f["case"]))
            path = write_replay(prop, f["case"], f["why"])
            print("VIOLATION property=%s replay=%s" % (prop, path))
            print("  why: %s" % f["why"])
            cov["violation"] = {"why": f["why"], "case": _shorten(f["case"])}
    elif errors or (killed and not results):
        rc = 2
    try:
        write_evidence(prop, mod, tier, seed, wall, cov, violations)
    except Exception as e:
        print("HARNESS-ERROR: cannot write evidence: %s" % e)
        rc = rc or 2
    if rc != 1:
        for fid, k in sorted(known_open.items()):
            print("KNOWN-FINDING: property=%s %s [%s] (met %d times in this run)" % (
                prop, k["what"], fid, known.get(fid, 0)))
    if rc == 2:
        print("HARNESS-ERROR property=%s" % prop)
        for e in errors[:2]:
            print(e[-1500:])
        if killed:
            print("killed on timeout:", killed)
        print(logtxt[-800:])
    print("%s %s: evaluations=%d distinct_nontrivial=%d known=%s violations=%d wall=%.1fs" % (
        prop, tier, evaluations, len(nontrivial), dict(known), violations, wall))
    return rc


def replay_main(prop, path):
    tmp = _prepare_process()
    try:
        mod = load_module(prop)
        with open(path if os.path.isabs(path) else os.path.join(ROOT, path)) as f:
            doc = json.load(f)
        case = doc["case"] if isinstance(doc, dict) and "case" in doc else doc
        known_open = open_findings(prop)
        out = mod.run_case(case)
        if out.ok or out.discard:
            print("%s replay: property held on this case%s" % (prop, " (precondition not met)" if out.discard else ""))
            rc = 0
        else:
            fid = mod.classify(case, out) if hasattr(mod, "classify") else None
            if fid in known_open:
                print("KNOWN-FINDING: property=%s %s [%s]" % (prop, known_open[fid]["what"], fid))
                print("  why: %s" % out.why)
                rc = 0
            else:
                print("VIOLATION property=%s replay=%s" % (prop, path))
                print("  why: %s" % out.why)
                rc = 1
    except BaseException as e:
        traceback.print_exc()
        print("HARNESS-ERROR property=%s" % prop)
        rc = 2
    os.chdir("/")
    shutil.rmtree(tmp, ignore_errors=True)
    sys.stdout.flush()
    os._exit(rc)


def main(argv):
    if not argv:
        print(__doc__)
        return 2
    if argv[0] == "--worker":
        worker_main(argv[1], argv[2], int(argv[3]), int(argv[4]), argv[5])
    if argv[0] == "--corpus":
        corpus_main(argv[1], argv[2])
    prop = argv[0].upper()
    if len(argv) >= 3 and argv[1] == "--replay":
        replay_main(prop, argv[2])
    tier = argv[1] if len(argv) > 1 else os.environ.get("VERIF_TIER", "quick")
    if tier not in ("quick", "thorough"):
        print("unknown tier", tier)
        return 2
    try:
        return parent_main(prop, tier)
    except Exception:
        traceback.print_exc()
        print("HARNESS-ERROR property=%s" % prop)
        return 2


if __name__ == "__main__":
    sys.exit(main(sys.argv[1:]))
