"""Reference semantics computed directly from JSON case descriptions.

Nothing here calls pyDCOP: costs are table lookups / `eval` of the defining expression in
a plain namespace, the optimum is brute force over the product of the domains.
"""
import itertools
import math

SAFE_BUILTINS = {"abs": abs, "min": min, "max": max, "round": round, "float": float,
                 "int": int, "len": len, "str": str, "bool": bool}

INF = float("inf")


def ref_eval(expr, env):
    return eval(expr, {"__builtins__": SAFE_BUILTINS}, dict(env))


def domain_of(desc, vname):
    for v in desc["variables"]:
        if v["name"] == vname:
            return desc["domains"][v["domain"]]
    for v in desc.get("externals", []):
        if v["name"] == vname:
            return desc["domains"][v["domain"]]
    raise KeyError(vname)


def var_desc(desc, vname):
    for v in desc["variables"]:
        if v["name"] == vname:
            return v
    raise KeyError(vname)


def table_lookup(table, idx):
    t = table
    for i in idx:
        t = t[i]
    return t


def num(x):
    """JSON cannot carry inf: the descriptions use the strings 'inf' / '-inf'."""
    if isinstance(x, str):
        return float(x)
    return x


def constraint_value(desc, c, assignment):
    """Value of constraint description `c` on a (super-)assignment dict name -> value."""
    if c["kind"] == "matrix":
        idx = [domain_of(desc, n).index(assignment[n]) for n in c["scope"]]
        return num(table_lookup(c["table"], idx))
    if c["kind"] in ("expr", "pyfunc"):
        env = {n: assignment[n] for n in c["scope"]}
        return ref_eval(c["expr"], env)
    if c["kind"] == "external":
        env = {n: assignment[n] for n in c["scope"]}
        env.update(c.get("fixed") or {})
        return c["helper"][0] * ref_eval(c["expr"], env) + c["helper"][1]
    raise ValueError(c["kind"])


def var_cost(desc, v, value):
    cost = v.get("cost")
    if not cost:
        return 0
    if cost["kind"] == "dict":
        dom = desc["domains"][v["domain"]]
        return num(cost["costs"][dom.index(value)])
    if cost["kind"] == "expr":
        return ref_eval(cost["expr"], {v["name"]: value})
    raise ValueError(cost["kind"])


def total_cost(desc, assignment, with_var_costs=True):
    tot = 0
    for c in desc["constraints"]:
        tot += constraint_value(desc, c, assignment)
    if with_var_costs:
        for v in desc["variables"]:
            tot += var_cost(desc, v, assignment[v["name"]])
    return tot


def all_assignments(desc, names=None):
    names = names if names is not None else [v["name"] for v in desc["variables"]]
    doms = [domain_of(desc, n) for n in names]
    for vals in itertools.product(*doms):
        yield dict(zip(names, vals))


def better(a, b, mode):
    return a < b if mode == "min" else a > b


def brute_force(desc, with_var_costs=True):
    """-> (optimal cost, list of optimal assignments, worst cost)."""
    mode = desc["objective"]
    best, arg, worst = None, [], None
    for a in all_assignments(desc):
        c = total_cost(desc, a, with_var_costs)
        if best is None or better(c, best, mode):
            best, arg = c, [a]
        elif c == best:
            arg.append(a)
        if worst is None or better(worst, c, mode):
            worst = c
    return best, arg, worst


def close(a, b, tol=1e-9):
    if a == b:
        return True
    if isinstance(a, int) and isinstance(b, int):
        return False  # integer costs are exact: no tolerance (a relative one would hide unit differences at 2^53)
    try:
        if math.isinf(a) or math.isinf(b) or math.isnan(a) or math.isnan(b):
            return False
    except TypeError:
        return False
    return abs(a - b) <= tol * max(1.0, abs(a), abs(b))


def neighbours(desc):
    """variable name -> set of names sharing a constraint."""
    nb = {v["name"]: set() for v in desc["variables"]}
    for c in desc["constraints"]:
        for a in c["scope"]:
            for b in c["scope"]:
                if a != b and a in nb and b in nb:
                    nb[a].add(b)
    return nb


def components(desc):
    nb = neighbours(desc)
    seen, comps = set(), []
    for n in sorted(nb):
        if n in seen:
            continue
        comp, todo = set(), [n]
        while todo:
            x = todo.pop()
            if x in comp:
                continue
            comp.add(x)
            todo.extend(nb[x] - comp)
        seen |= comp
        comps.append(comp)
    return comps


def diameter(adj):
    """Largest finite eccentricity of an undirected graph given as name -> set(names)."""
    best = 0
    for s in adj:
        dist = {s: 0}
        todo = [s]
        while todo:
            nxt = []
            for x in todo:
                for y in adj[x]:
                    if y not in dist:
                        dist[y] = dist[x] + 1
                        nxt.append(y)
            todo = nxt
        best = max(best, max(dist.values()))
    return best
