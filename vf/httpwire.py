"""Real loopback transport: two HttpCommunicationLayer instances on 127.0.0.1 (per worker process).

send(msg) pushes a message through HttpCommunicationLayer.send_msg -> requests.post -> MPCHttpHandler.do_POST ->
on_post_message and returns the object that reached the receiving agent's messaging, i.e. exactly what a remote
computation would be handed.
"""
import socket
import time

_loop = None


class Timeout(Exception):
    _vf_harness = True      # not wrapped by run.under_test: the loopback did not answer, no verdict on the message


def _free_port():
    s = socket.socket()
    s.bind(("127.0.0.1", 0))
    p = s.getsockname()[1]
    s.close()
    return p


class Loop:
    def __init__(self):
        from pydcop.infrastructure.communication import HttpCommunicationLayer
        self.received = []
        for _ in range(20):
            try:
                self.a = HttpCommunicationLayer(("127.0.0.1", _free_port()))
                self.b = HttpCommunicationLayer(("127.0.0.1", _free_port()))
                break
            except OSError:
                continue
        loop = self

        class Disc:
            def agent_address(self, name):
                return loop.b.address

        class Msging:
            def post_msg(self, src, dst, msg, msg_type=None, on_error=None):
                loop.received.append((src, dst, msg, msg_type))

        self.a.discovery = Disc()
        self.b.discovery = Disc()
        self.b.messaging = Msging()
        self.a.messaging = Msging()

    def send(self, msg, msg_type=20):
        import requests
        from pydcop.infrastructure.communication import ComputationMessage
        for attempt in range(4):
            n = len(self.received)
            try:
                self.a.send_msg("agt_a", "agt_b", ComputationMessage("src_c", "dst_c", msg, msg_type), on_error="fail")
            except (requests.exceptions.Timeout, requests.exceptions.ConnectionError):
                time.sleep(0.2)
                continue
            except Exception as e:
                # the layer turns a refused / timed-out connection (0.5 s, easily exceeded on a loaded machine) into
                # UnreachableAgent: a transport hiccup of the loopback, not a property of the message -> retry
                if type(e).__name__ == "UnreachableAgent":
                    time.sleep(0.3)
                    continue
                raise
            if len(self.received) > n:
                return self.received[-1]
        raise Timeout()

    def close(self):
        for c in (self.a, self.b):
            try:
                c.shutdown()
            except Exception:
                pass


def loop():
    global _loop
    if _loop is None:
        _loop = Loop()
    return _loop


def close():
    global _loop
    if _loop is not None:
        _loop.close()
        _loop = None
