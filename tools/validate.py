#!/usr/bin/env python3
"""Validate MANIFEST.json and evidence/*.json against the schemas (uses python3-vt's jsonschema)."""
import json, sys, glob, os
import jsonschema
root = os.path.dirname(os.path.dirname(os.path.abspath(__file__)))
bad = 0
def check(path, schema):
    global bad
    try:
        jsonschema.validate(json.load(open(path)), json.load(open(schema)))
    except Exception as e:
        bad += 1
        print("INVALID", path, str(e)[:300])
if os.path.exists(root + "/MANIFEST.json"):
    check(root + "/MANIFEST.json", "/root/.vp/MANIFEST.schema.json")
    m = json.load(open(root + "/MANIFEST.json"))
    props = [json.loads(l)["id"] for l in open(root + "/properties.jsonl")]
    claimed = [c["property_id"] for c in m["checks"]]
    na = [c["property_id"] for c in m.get("not_applicable", [])]
    for p in props:
        if p not in claimed and p not in na:
            print("UNCLAIMED", p); bad += 1
for f in sorted(glob.glob(root + "/evidence/*.json")):
    check(f, "/root/.vp/EVIDENCE.schema.json")
print("validated; problems:", bad)
sys.exit(1 if bad else 0)
