#!/bin/bash
# Runs the repository's pinned baseline (guard OFF) and checks that every test in
# BASELINE.json:stable_pass still passes.  Exit 0 iff none of them regressed.
# Optional argument: another checkout of the repository (used for seeded changes in scratch copies).
REPO_DIR=${1:-/repo}
OUT=$(mktemp -d)
cd "$REPO_DIR" && env -u PYDCOP_VERIF PYTHONPATH="$REPO_DIR" timeout -k 5 900 /venv/bin/python -m pytest -ra -q -p no:cacheprovider --timeout=900 \
   --continue-on-collection-errors --junitxml=$OUT/j.xml > $OUT/log 2>&1
tail -1 $OUT/log
/venv/bin/python - "$OUT/j.xml" <<'PY'
import json, sys, xml.etree.ElementTree as ET
base = set(json.load(open('/root/.vp/BASELINE.json'))['stable_pass'])
ok = set()
for tc in ET.parse(sys.argv[1]).getroot().iter('testcase'):
    if not any(c.tag in ('failure', 'error', 'skipped') for c in tc):
        ok.add(tc.get('classname') + '::' + tc.get('name'))
missing = sorted(base - ok)
print('baseline stable_pass:', len(base), 'now passing of those:', len(base & ok), 'total passing:', len(ok))
for m in missing: print('REGRESSED', m)
sys.exit(1 if missing else 0)
PY
rc=$?
rm -rf $OUT
exit $rc
