#!/bin/bash
# Runs the repository's pinned baseline (guard OFF) and checks that every test in
# BASELINE.json:stable_pass still passes.  Exit 0 iff none of them regressed.
# Optional argument: another checkout of the repository (used for seeded changes in scratch copies).
# Tests that fail in the full run are re-run once on their own (the HTTP handler tests bind a fixed port and
# collide when several baselines run at the same time on this machine); only a test failing both times counts.
REPO_DIR=${1:-/repo}
OUT=$(mktemp -d)
cd "$REPO_DIR" && env -u PYDCOP_VERIF PYTHONPATH="$REPO_DIR" timeout -k 5 900 /venv/bin/python -m pytest -ra -q -p no:cacheprovider --timeout=900 \
   --continue-on-collection-errors --junitxml=$OUT/j.xml > $OUT/log 2>&1
tail -1 $OUT/log
/venv/bin/python - "$OUT/j.xml" "$REPO_DIR" <<'PY'
import json, os, subprocess, sys, xml.etree.ElementTree as ET
base = set(json.load(open('/root/.vp/BASELINE.json'))['stable_pass'])
repo = sys.argv[2]
def passed(xml):
    ok = set()
    for tc in ET.parse(xml).getroot().iter('testcase'):
        if not any(c.tag in ('failure', 'error', 'skipped') for c in tc):
            ok.add(tc.get('classname') + '::' + tc.get('name'))
    return ok
ok = passed(sys.argv[1])
missing = sorted(base - ok)
if missing and len(missing) <= 20:
    ids = []
    for m in missing:
        cls, name = m.split('::')
        parts = cls.split('.')
        for k in range(len(parts), 0, -1):
            f = os.path.join(repo, *parts[:k]) + '.py'
            if os.path.exists(f):
                ids.append('::'.join([os.path.join(*parts[:k]) + '.py'] + parts[k:] + [name]))
                break
    x2 = sys.argv[1] + '.retry.xml'
    env = dict(os.environ, PYTHONPATH=repo); env.pop('PYDCOP_VERIF', None)
    subprocess.run(['/venv/bin/python', '-m', 'pytest', '-q', '-p', 'no:cacheprovider', '--timeout=900', '--junitxml=' + x2] + ids,
                   cwd=repo, env=env, stdout=subprocess.DEVNULL, stderr=subprocess.DEVNULL)
    if os.path.exists(x2):
        again = passed(x2)
        print('re-ran %d failing baseline tests alone: %d pass' % (len(ids), len(again & set(missing))))
        ok |= again
        missing = sorted(base - ok)
print('baseline stable_pass:', len(base), 'now passing of those:', len(base & ok), 'total passing:', len(ok))
for m in missing: print('REGRESSED', m)
sys.exit(1 if missing else 0)
PY
rc=$?
rm -rf $OUT
exit $rc
