#!/bin/bash
# tools/mutant.sh <patch.diff> <check-id> [tier]   -- development aid, never used by a registered check.
# Applies a patch to a scratch copy of /repo (outside /repo and /verif), runs one check against the copy
# (VERIF_REPO), with evidence and replays redirected to a temp dir, then removes the copy.
set -u
PATCH=$(readlink -f "$1"); ID=$2; TIER=${3:-quick}
W=$(mktemp -d /scratch/mut.XXXXXX)
rsync -a --exclude .git --exclude '__pycache__' /repo/ $W/repo/
( cd $W/repo && patch -p1 -s < "$PATCH" ) || { echo "PATCH FAILED"; rm -rf $W; exit 3; }
cd /verif
VERIF_REPO=$W/repo VERIF_EVIDENCE_DIR=$W/ev VERIF_REPLAY_DIR=$W/replays ./check $ID $TIER | grep -v '^KNOWN-FINDING' | cut -c1-400
rc=${PIPESTATUS[0]}
rm -rf $W
echo "mutant rc=$rc"
exit $rc
