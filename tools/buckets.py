#!/usr/bin/env python3
"""buckets.py <ID> [n_examples] [seed]  -- development aid (never used by a registered check).
Runs n generated cases of a property without stopping at failures and buckets the failures by
(classify id | info.kind, info.method, info.exc, info.frame); prints each bucket's count and smallest case's reason;
writes the smallest case of each bucket to /scratch/buckets/<ID>/<k>.json."""
import json, os, sys, collections
ROOT = os.path.dirname(os.path.dirname(os.path.abspath(__file__)))
sys.path.insert(0, ROOT)
os.environ.setdefault("PYDCOP_VERIF", "1")
from vf import run as R
prop = sys.argv[1].upper(); n = int(sys.argv[2]) if len(sys.argv) > 2 else 300; seed = int(sys.argv[3]) if len(sys.argv) > 3 else 1
tmp = R._prepare_process()
import hypothesis
from hypothesis import HealthCheck, Phase, given, settings
mod = R.load_module(prop)
known = R.open_findings(prop)
buckets = collections.OrderedDict(); count = collections.Counter(); tot = [0, 0]
@hypothesis.seed(seed)
@settings(max_examples=n, database=None, deadline=None, suppress_health_check=list(HealthCheck), phases=[Phase.generate])
@given(mod.case_strategy("quick"))
def t(case):
    out = mod.run_case(case); tot[0] += 1
    if out.ok or out.discard: return
    tot[1] += 1
    fid = mod.classify(case, out) if hasattr(mod, "classify") else None
    i = out.info or {}
    key = (("KNOWN:" if fid in known else "cls:") + fid) if fid else "|".join(str(i.get(k)) for k in ("kind", "method", "exc", "frame"))
    count[key] += 1
    if key not in buckets or R._size(case) < R._size(buckets[key][0]): buckets[key] = (case, out.why)
t()
d = "/scratch/buckets/" + prop; os.makedirs(d, exist_ok=True)
print("cases", tot[0], "failures", tot[1])
for k, (key, (case, why)) in enumerate(sorted(buckets.items(), key=lambda kv: -count[kv[0]])):
    json.dump({"property": prop, "why": why, "case": case}, open("%s/%d.json" % (d, k), "w"), indent=1)
    print("[%d] x%d %s\n     %s" % (k, count[key], key, why[:600]))
os._exit(0)
