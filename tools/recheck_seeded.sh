#!/bin/bash
# tools/recheck_seeded.sh <seeded-name> <tier> <check ids...>   -- development aid, never used by a registered check.
# Re-runs the given checks against a scratch copy of /repo with seeded/<name>/patch.diff applied and records the verdict
# lines in seeded/<name>/meta.json under checks_<tier> (replacing earlier lines of the same checks).
set -u
NAME=$1; TIER=$2; shift 2
W=$(mktemp -d /scratch/rs.XXXXXX)
rsync -a --exclude .git --exclude '__pycache__' /repo/ $W/repo/
( cd $W/repo && patch -p1 -s < /verif/seeded/$NAME/patch.diff ) || { echo "PATCH FAILED $NAME"; rm -rf $W; exit 3; }
cd /verif
RES=""
for c in "$@"; do
  out=$(VERIF_REPO=$W/repo VERIF_EVIDENCE_DIR=$W/ev VERIF_REPLAY_DIR=$W/replays ./check $c $TIER | grep -v '^KNOWN-FINDING' | cut -c1-300)
  line=$(echo "$out" | grep -m1 -A1 VIOLATION | tr '\n' ' ')
  [ -z "$line" ] && line=$(echo "$out" | tail -1)
  echo "  $NAME $TIER $c: $line" | cut -c1-260
  RES="$RES$c($TIER): $line\n"
done
/venv/bin/python - "/verif/seeded/$NAME/meta.json" "$TIER" "$RES" <<'PY'
import json, sys, re
p, tier, res = sys.argv[1:4]
m = json.load(open(p))
new = [l for l in res.replace("\\n", "\n").split("\n") if l.strip() and re.match(r"(C\d+)", l)]
ids = set(re.match(r"(C\d+)", l).group(1) for l in new)
key = "checks_" + tier
old = [l for l in m.get(key, []) if re.match(r"(C\d+)", l).group(1) not in ids]
if tier == "quick":
    new = [re.sub(r"^(C\d+)\(quick\)", r"\1", l) for l in new]
m[key] = old + new
json.dump(m, open(p, "w"), indent=1)
PY
rm -rf $W
