#!/bin/bash
# tools/seeded.sh <PROP> <dir-with-patch.diff,demo.py,meta.json> <name> [checks...]
# Development aid (never used by a registered check): confirm a seeded breaking change in a scratch copy
# of /repo (demo fails with it / passes without, baseline tests still pass), run the given checks (default:
# the property's own) against it, and store it under /verif/seeded/<name>/ with what was run.
set -u
PROP=$1; SRC=$(readlink -f $2); NAME=$3; shift 3
CHECKS=${*:-$PROP}
W=$(mktemp -d /scratch/seed.XXXXXX)
rsync -a --exclude .git --exclude '__pycache__' /repo/ $W/repo/
cp $SRC/demo.py $W/demo.py
run_demo() { ( cd $W/repo && PYTHONPATH=$W/repo timeout 300 /venv/bin/python $W/demo.py > $W/demo.out 2>&1; echo $? ); }
D0=$(run_demo)
( cd $W/repo && patch -p1 -s < $SRC/patch.diff ) || { echo "PATCH FAILED"; rm -rf $W; exit 3; }
D1=$(run_demo); tail -3 $W/demo.out | cut -c1-300
BASE=$(/verif/tools/baseline.sh $W/repo | tail -3 | tr '\n' ' ')
echo "demo without patch rc=$D0, with patch rc=$D1; baseline: $BASE"
RES=""
cd /verif
for c in $CHECKS; do
  out=$(VERIF_REPO=$W/repo VERIF_EVIDENCE_DIR=$W/ev VERIF_REPLAY_DIR=$W/replays ./check $c quick | grep -v '^KNOWN-FINDING' | cut -c1-300)
  rc=$?
  line=$(echo "$out" | grep -m1 -A1 VIOLATION | tr '\n' ' ')
  [ -z "$line" ] && line=$(echo "$out" | tail -1)
  echo "  check $c: $line"
  RES="$RES$c: $line\n"
done
mkdir -p /verif/seeded/$NAME
cp $SRC/patch.diff $SRC/demo.py /verif/seeded/$NAME/
/venv/bin/python - "$SRC/meta.json" "/verif/seeded/$NAME/meta.json" "$PROP" "$D0" "$D1" "$BASE" "$RES" <<'PY'
import json, sys
src, dst, prop, d0, d1, base, res = sys.argv[1:8]
try:
    m = json.load(open(src))
except Exception:
    m = {}
m["property"] = prop
m["confirmed"] = {"demo_rc_without_patch": int(d0), "demo_rc_with_patch": int(d1), "baseline_with_patch": base.strip(),
                  "how": "scratch copy of /repo at the then-current HEAD; patch -p1; demo.py with PYTHONPATH=<copy>; tools/baseline.sh <copy>"}
m["checks_quick"] = [l for l in res.replace("\\n", "\n").split("\n") if l.strip()]
json.dump(m, open(dst, "w"), indent=1)
PY
rm -rf $W
