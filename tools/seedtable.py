#!/usr/bin/env python3
"""Print a markdown table of the seeded breaking changes under seeded/ and which checks caught them (from meta.json)."""
import json, os, re
root = os.path.dirname(os.path.dirname(os.path.abspath(__file__)))
rows = []
for d in sorted(os.listdir(os.path.join(root, "seeded"))):
    p = os.path.join(root, "seeded", d, "meta.json")
    if not os.path.exists(p):
        continue
    m = json.load(open(p))
    caught, missed = [], []
    for l in m.get("checks_quick", []) + m.get("checks_thorough", []):
        mm = re.match(r"\s*(C\d+)(\([a-z]+\))?:\s*(.*)", l)
        if not mm:
            continue
        tag = mm.group(1) + (mm.group(2) or "")
        (caught if "VIOLATION" in mm.group(3) else missed).append(tag)
    caught = sorted(set(caught)); missed = sorted(set(missed) - set(caught))
    s = (m.get("summary") or "").replace("|", "/").replace("\n", " ")
    s = s[:150] + ("..." if len(s) > 150 else "")
    base = (m.get("confirmed") or {}).get("baseline_with_patch", "")
    ok = "649 now passing of those: 649" in base
    if m.get("stale"):
        s = "[STALE: no longer applies to the repaired tree, see meta.json] " + s
    rows.append("| %s | %s | %s | %s | %s |" % (d, s, ", ".join(caught) or "-", ", ".join(missed) or "-", "yes" if ok else "see meta"))
print("| change | what it does | caught by | run but quiet | baseline 649/649 |")
print("|---|---|---|---|---|")
print("\n".join(rows))
