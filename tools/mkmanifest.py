#!/usr/bin/env python3
"""Regenerate MANIFEST.json from the property modules present under vf/props.

Every module provides LEVEL_TEXT / LEVEL_NOTE / TECHNIQUE / DESIGN_REF strings; a property
without a module is listed under not_applicable with the reason given in NOT_APPLICABLE below
(or 'check not built yet' while work is in progress)."""
import ast
import json
import os
import subprocess

ROOT = os.path.dirname(os.path.dirname(os.path.abspath(__file__)))
NOT_APPLICABLE = {}


def module_strings(path):
    out = {}
    tree = ast.parse(open(path).read())
    for node in tree.body:
        if isinstance(node, ast.Assign) and len(node.targets) == 1 and isinstance(node.targets[0], ast.Name):
            try:
                out[node.targets[0].id] = ast.literal_eval(node.value)
            except Exception:
                pass
    return out


def main():
    props = [json.loads(l) for l in open(os.path.join(ROOT, "properties.jsonl"))]
    checks, na = [], []
    for p in props:
        pid = p["id"]
        path = os.path.join(ROOT, "vf", "props", pid.lower() + ".py")
        if not os.path.exists(path):
            na.append({"property_id": pid, "reason": NOT_APPLICABLE.get(pid, "check not built yet (work in progress)")})
            continue
        m = module_strings(path)
        checks.append({
            "property_id": pid,
            "quick_cmd": "./check %s quick" % pid,
            "thorough_cmd": "./check %s thorough" % pid,
            "evidence_file": "/verif/evidence/%s.json" % pid,
            "replay_cmd_template": "./check %s --replay {path}" % pid,
            "engine": m.get("ENGINE", "vf"),
            "level_claimed": {"category": m.get("LEVEL", "exploration"), "text": m["LEVEL_TEXT"],
                              "design_ref": m.get("DESIGN_REF", "DESIGN.md section 3, " + pid)},
            "level_note": m["LEVEL_NOTE"],
            "technique": m["TECHNIQUE"],
        })
    try:
        commits = subprocess.check_output(
            ["git", "-C", "/repo", "log", "--format=%h %s", "--grep=^hook:"], text=True).strip().splitlines()
    except Exception:
        commits = []
    manifest = {
        "version": 1,
        "setup_cmd": "/venv/bin/python -c 'import hypothesis' 2>/dev/null || /venv/bin/pip install -q --no-index "
                     "--find-links /opt/veriftools/wheels hypothesis",
        "hooks": {
            "guard": "PYDCOP_VERIF",
            "enable": "checks export PYDCOP_VERIF=1 (./check does it); no source hook is currently needed: all "
                      "instrumentation is applied from the harness by wrapping documented callbacks",
            "baseline_off_cmd": "/verif/tools/baseline.sh",
            "source_commits": [c.split()[0] for c in commits],
            "add_only": True,
        },
        "engines": [
            {"name": "vf", "path": "/verif/vf", "serves_properties": [c["property_id"] for c in checks],
             "kind_free_text": "Hypothesis-driven property-based testing: generated JSON cases (inputs, operation "
                               "histories, delivery schedules, fault choices) run against /repo's working tree with "
                               "explicit oracles; deterministic in-harness network (SimNet) for schedules; 16 "
                               "parallel seeded shards; shrinking to a JSON replay file"}],
        "checks": checks,
        "not_applicable": na,
        "notes": "All checks: ./check <ID> quick|thorough; replay: ./check <ID> --replay <file>. Exit 0 held / 1 "
                 "VIOLATION / 2 harness error. known_findings.json lists open and fixed findings (read-only at run "
                 "time). seeded/ holds independently written breaking changes used to validate the checks.",
    }
    with open(os.path.join(ROOT, "MANIFEST.json"), "w") as f:
        json.dump(manifest, f, indent=1)
    print("checks:", len(checks), "not_applicable:", len(na))


if __name__ == "__main__":
    main()
