#!/usr/bin/env python3
"""addfinding.py <id> <property> <status> <commit|-> <replay-file|-> <what> [line]
Dev-time helper (never called by a check): append an entry to known_findings.json and copy the
replay file to corpus/<property>/<id>.json."""
import json, os, shutil, sys
root = os.path.dirname(os.path.dirname(os.path.abspath(__file__)))
fid, prop, status, commit, replay, what = sys.argv[1:7]
line = sys.argv[7] if len(sys.argv) > 7 else what
p = os.path.join(root, "known_findings.json")
d = json.load(open(p))
d["findings"] = [f for f in d["findings"] if f["id"] != fid]
e = {"id": fid, "property": prop, "status": status, "what": what}
if commit != "-":
    e["commit"] = commit
if status == "fixed":
    e["line"] = "fixed: property=%s %s %s" % (prop, commit, line)
if replay != "-":
    os.makedirs(os.path.join(root, "corpus", prop), exist_ok=True)
    dst = os.path.join(root, "corpus", prop, fid + ".json")
    doc = json.load(open(replay))
    doc["finding"] = fid
    json.dump(doc, open(dst, "w"), indent=1)
    e["corpus"] = os.path.relpath(dst, root)
d["findings"].append(e)
json.dump(d, open(p, "w"), indent=1)
print("added", fid)
