#!/usr/bin/env python3
"""qmut.py <check-ids,comma> <repo-relative-file> <old> <new> [tier]   -- development aid, never used by a check.
Copies /repo to a scratch dir, replaces the first occurrence of <old> by <new> in the file, runs the checks against
the copy (evidence/replays redirected) and removes the copy.  Prints each check's verdict line."""
import os, shutil, subprocess, sys, tempfile
ids, rel, old, new = sys.argv[1:5]
tier = sys.argv[5] if len(sys.argv) > 5 else "quick"
os.makedirs("/scratch", exist_ok=True)
w = tempfile.mkdtemp(prefix="qm.", dir="/scratch")
try:
    subprocess.check_call(["rsync", "-a", "--exclude", ".git", "--exclude", "__pycache__", "/repo/", w + "/repo/"])
    p = os.path.join(w, "repo", rel)
    s = open(p).read()
    old = old.encode().decode("unicode_escape"); new = new.encode().decode("unicode_escape")
    if s.count(old) < 1:
        print("OLD TEXT NOT FOUND"); sys.exit(3)
    open(p, "w").write(s.replace(old, new, 1))
    env = dict(os.environ, VERIF_REPO=w + "/repo", VERIF_EVIDENCE_DIR=w + "/ev", VERIF_REPLAY_DIR=w + "/rp")
    for i in ids.split(","):
        out = subprocess.run(["/verif/check", i, tier], env=env, capture_output=True, text=True).stdout
        lines = [l for l in out.splitlines() if not l.startswith("KNOWN-FINDING")]
        v = [l for l in lines if l.startswith("VIOLATION")]
        if v:
            k = lines.index(v[0])
            print(i, "KILLED:", " | ".join(l[:260] for l in lines[k:k + 2]))
        else:
            print(i, "SURVIVED:", lines[-1][:200] if lines else "")
finally:
    shutil.rmtree(w, ignore_errors=True)
