def helper(x):
    return 3 * x + 4
